"""
C06 - the parsed dependency graph is well formed.

(a) the structural oracle (structure.wellformed) on graphs parsed by the real code for
    a menu of selections, eagerly and lazily (after traversals under solver-chosen
    schedules), with worker and leaf parse order permuted;
(b) symbolic shape: real nodes stripped of their edges get every forward edge as a
    solver variable (descend_from_node), then the real
    parse_shared_root_from_object_roots attaches the starting node.
"""

from __future__ import annotations

import itertools
from typing import Any

from engine import symx
from . import common, structure, trav, trav_plans, travcheck

EAGER_MENU = [
    ("G1", {}), ("G2", {}), ("G3", {}), ("G6b", {}),
    ("G1", {"nets": "net2 net1"}), ("G2", {"nets": "net3 net1 net2"}), ("G4f", {"nets": "net1"}), ("G4g", {}),
    ("G1", {"nets": "net5 net1", "vm_strs": {"vm1": "", "vm2": "only Win10\n", "vm3": "only Ubuntu\n"}, "label": "G1-restricted-first-worker"}),
    ("G1", {"vm_strs": {"vm1": "only CentOS,Fedora\n", "vm2": "only Win10\n", "vm3": "only Ubuntu\n"}, "label": "G1-multivariant"}),
    ("G2", {"vm_strs": {"vm1": "only Fedora\n", "vm2": "only Win10\n", "vm3": "only Ubuntu\n"}, "nets": "net1", "label": "G2-fedora"}),
]
EAGER_THOROUGH = [("G4", {}), ("G23", {}), ("G6", {}), ("G0", {}), ("G3", {"nets": "net2 net1 net4"})]


def graph_monitor(run: Any) -> list[Any]:
    return structure.wellformed(run.graph, run.scenario.name)


def plans(tier: str) -> list[dict[str, Any]]:
    P = trav_plans.plan
    out = [
        P("lazy setup tests of both variants of vm1 (several objects created in one expansion step)", trav.Scenario("L-customize-variants", "nonleaves..customize", "net1", vm_strs={"vm1": "", "vm2": "only Win10\n", "vm3": "only Ubuntu\n"}, vms="vm1"), [graph_monitor], K=1, statuses=["PASS"]),
        P("lazy setup test of the permanent vm3", trav.Scenario("L-customize-vm3", "nonleaves..customize", "net1", vms="vm3"), [graph_monitor], K=1, statuses=["PASS"]),
        P("lazy G2 expanded under explored schedules", trav.menu("G2"), [graph_monitor], K=1, statuses=["PASS"]),
        P("lazy G3 expanded under explored schedules", trav.menu("G3"), [graph_monitor], K=1, statuses=["PASS"], pool_fixed=trav.DEEP_PRESENT),
    ]
    if tier == "thorough":
        out += [
            P("lazy G4 (cloning) expanded under explored schedules", trav.menu("G4"), [graph_monitor], K=1, statuses=["PASS"], pool_fixed={**trav.DEEP_PRESENT, "linux_virtuser": ["shared"], "windows_virtuser": ["shared"]}),
            P("lazy G2 3 workers", trav.menu("G2x3"), [graph_monitor], K=1, statuses=["PASS", "FAIL"], max_nonpass=1),
            P("lazy G5b restricted workers", trav.menu("G5b"), [graph_monitor], K=1, statuses=["PASS"]),
        ]
    return out


replay_trav = travcheck.make_replay(plans)


def check_eager(ctx: common.Context) -> None:
    trav.install()
    menu = EAGER_MENU + (EAGER_THOROUGH if ctx.thorough else [])
    done = []
    for name, kw in menu:
        kw = dict(kw)
        sc = trav.menu(name, lazy=False, **kw)
        run = trav.prepare(symx.Engine(), sc, trav.Config())
        findings = structure.wellformed(run.graph, sc.name)
        # the code's own validation agrees
        for n in run.graph.nodes:
            try:
                n.validate()
            except (ValueError, AssertionError) as e:
                findings.append((f"C06 {sc.name} validate", f"validate() rejects {n.params['shortname']}: {e}", {}))
        ctx.obligations += 1
        if not findings:
            ctx.discharged += 1
        done.append({"selection": sc.restriction, "nets": sc.nets, "nodes": len(run.graph.nodes), "findings": len(findings)})
        for fp, what, detail in findings:
            ctx.report(fp, what, {"eager": [name, kw]}, replay_eager)
    ctx.part("eager graphs", graphs=done)
    ctx.sample({"eager_graph": done[0]})


def replay_eager(data: dict[str, Any]) -> tuple[bool, str]:
    name, kw = data["eager"]
    sc = trav.menu(name, lazy=False, **dict(kw))
    run = trav.prepare(symx.Engine(), sc, trav.Config())
    f = structure.wellformed(run.graph, sc.name)
    return bool(f), f[0][1] if f else "well formed"


_shape = {"K": 4}


def _shape_factory():
    col = common.Collector()
    trav.install()

    def fn(eng: symx.Engine) -> Any:
        sc = trav.menu("G2", lazy=False, nets="net1")
        run = trav.prepare(eng, sc, trav.Config())
        g = run.graph
        nodes = [n for n in g.nodes if not n.is_shared_root()][: _shape["K"]]
        g._nodes = list(nodes)
        for n in nodes:
            n._setup_nodes, n._cleanup_nodes = {}, {}
        edges = []
        for i, j in itertools.combinations(range(len(nodes)), 2):
            # an edge may be based on one or on two objects of the child (e.g. a vm and its image)
            n_objs = symx.choose(3, f"edge_{i}_{j}")
            for k in range(n_objs):
                objs = nodes[j].objects[1:] or nodes[j].objects
                nodes[j].descend_from_node(nodes[i], objs[k % len(objs)])
            if n_objs:
                edges.append((i, j, n_objs))
        g.parse_shared_root_from_object_roots(sc.param_dict())
        col.count("shapes")
        findings = [f for f in structure.wellformed(g, "shape", expanded=False) if "producers" not in f[0] and "vm objects" not in f[0]]
        if len(col.samples) < 2 and len(edges) >= 2:
            col.samples.append({"forward_edges": edges, "nodes": len(g.nodes)})
        if findings:
            raise symx.Violation(findings[0][1], {"edges": edges, "class": findings[0][0]})
        return None

    def on_path(eng: symx.Engine, outcome: str, payload: Any) -> None:
        if outcome == "violation":
            col.violations.append((payload.what, payload.detail["class"], payload.detail))

    def collect() -> Any:
        col.functions = set(common.TRACER.seen)
        return col

    return fn, on_path, collect


def replay_shape(data: dict[str, Any]) -> tuple[bool, str]:
    trav.install()
    sc = trav.menu("G2", lazy=False, nets="net1")
    run = trav.prepare(symx.Engine(), sc, trav.Config())
    g = run.graph
    nodes = [n for n in g.nodes if not n.is_shared_root()][: max([e[1] for e in data["edges"]] + [3]) + 1]
    g._nodes = list(nodes)
    for n in nodes:
        n._setup_nodes, n._cleanup_nodes = {}, {}
    for e in data["edges"]:
        i, j, n_objs = (list(e) + [1])[:3]
        for k in range(n_objs):
            objs = nodes[j].objects[1:] or nodes[j].objects
            nodes[j].descend_from_node(nodes[i], objs[k % len(objs)])
    g.parse_shared_root_from_object_roots(sc.param_dict())
    f = [x for x in structure.wellformed(g, "shape", expanded=False) if "producers" not in x[0] and "vm objects" not in x[0]]
    return bool(f), f[0][1] if f else "well formed"


# ---------------------------------------------------------------------------
# deep cloning: a test with several parents for one state is cloned with all its descendants

CLONE_CHAIN = ["leaves..tutorial_get..implicit_both", "leaves..tutorial_finale", "leaves..tutorial_get..explicit_noop", "leaves..tutorial_get..explicit_clicked"]


def _clone_case(depth: int, fork_at: int) -> list[str]:
    """Real nodes of the sample suite chained artificially (as the repository's own cloning tests do): two parents
    producing the state of the first test, ``depth`` tests below each other, optionally two dependants at one level."""
    from avocado_i2n.cartgraph import TestGraph

    graph = TestGraph()
    net = TestGraph.parse_flat_objects("net1", "nets", params={"only_vm1": "CentOS", "only_vm2": "Win10", "only_vm3": "Ubuntu"}, unique=True)
    parents = graph.parse_composite_nodes("normal..tutorial_gui", net)
    if len(parents) != 2:
        raise symx.Abort("sample suite changed: tutorial_gui has not two variants")
    chain = [graph.parse_composite_nodes(r, net, unique=True) for r in CLONE_CHAIN[:depth]]
    chain[0].descend_from_node(parents[0], net)
    for a, b in zip(chain, chain[1:]):
        b.descend_from_node(a, net)
    levels = [[n] for n in chain]
    parent_of = {id(chain[0]): None, **{id(b): a for a, b in zip(chain, chain[1:])}}
    if 0 < fork_at < depth and depth < len(CLONE_CHAIN):
        extra = graph.parse_composite_nodes(CLONE_CHAIN[depth], net, unique=True)
        extra.descend_from_node(chain[fork_at - 1], net)
        levels[fork_at].append(extra)
        parent_of[id(extra)] = chain[fork_at - 1]
    graph.parse_cloned_branches_for_node_and_object(chain[0], net, parents)
    problems = []
    sid = lambda n: n.prefix + "-" + n.params["shortname"]
    for level in levels:
        for source in level:
            if len(source.cloned_nodes) != len(parents):
                problems.append(f"{sid(source)} has {len(source.cloned_nodes)} clones for {len(parents)} parents of its ancestor")
                continue
            above = parent_of[id(source)]
            for i, clone in enumerate(source.cloned_nodes):
                expected = parents[i] if above is None else above.cloned_nodes[i]
                if list(clone.setup_nodes) != [expected]:
                    problems.append(f"clone {sid(clone)} must have exactly the parent {sid(expected)} but has {[sid(q) for q in clone.setup_nodes]}")
                for q in clone.setup_nodes:
                    if len(q.cloned_nodes) > 0:
                        problems.append(f"clone {sid(clone)} depends on the retired clone source {sid(q)}, which is never run: no parent produces its state")
                    if clone not in q.cleanup_nodes:
                        problems.append(f"edge {sid(q)} -> {sid(clone)} is not recorded on the parent end")
    return problems


def _clone_factory():
    col = common.Collector()
    trav.install()

    def fn(eng: symx.Engine) -> Any:
        depth = 1 + eng.pick(len(CLONE_CHAIN), "clone_depth")
        fork_at = eng.pick(3, "clone_fork_level")
        problems = _clone_case(depth, fork_at)
        col.count("clone_cases")
        if depth >= 3:
            col.count("clone_cases_deep")
        if problems:
            raise symx.Violation(problems[0], {"clone_case": [depth, fork_at], "class": f"C06 deep cloning depth {depth}", "problems": problems[:6]})
        return None

    def on_path(eng: symx.Engine, outcome: str, payload: Any) -> None:
        if outcome == "violation":
            col.violations.append((payload.what, payload.detail["class"], payload.detail))

    def collect() -> Any:
        col.functions = set(common.TRACER.seen)
        return col

    return fn, on_path, collect


def replay_clone(data: dict[str, Any]) -> tuple[bool, str]:
    trav.install()
    problems = _clone_case(*data["clone_case"])
    return bool(problems), problems[0] if problems else "well formed"


def replay(data: dict[str, Any]) -> tuple[bool, str]:
    if "clone_case" in data:
        return replay_clone(data)
    if "eager" in data:
        return replay_eager(data)
    if "edges" in data:
        return replay_shape(data)
    return replay_trav(data)


def run(ctx: common.Context) -> None:
    check_eager(ctx)
    _shape["K"] = 4 if ctx.thorough else 3
    exhausted, stats, collected, err = symx.explore_parallel(_shape_factory, seed=ctx.seed, split_depth=3, deadline=ctx.deadline(60, 400), min_tasks=8)
    ctx.add_stats(stats)
    counters = common.merge_collected(ctx, collected)
    ctx.part("symbolic shape", exhausted=exhausted, paths=stats.paths, counters=counters)
    if err:
        ctx.note_inconclusive(err)
    if not exhausted:
        ctx.exhaustive = False
    for c in collected:
        for what, cls, detail in c.violations:
            ctx.report(cls, what, detail, replay_shape)
    exhausted, stats, collected, err = symx.explore_parallel(_clone_factory, seed=ctx.seed, split_depth=2, deadline=ctx.deadline(120, 400), min_tasks=8)
    ctx.add_stats(stats)
    counters = common.merge_collected(ctx, collected)
    ctx.part("deep cloning", exhausted=exhausted, paths=stats.paths, counters=counters)
    if err:
        ctx.note_inconclusive(err)
    if not exhausted:
        ctx.exhaustive = False
    if counters.get("clone_cases_deep", 0) == 0:
        ctx.note_inconclusive("vacuous: no cloning of a chain of three or more tests explored")
    for c in collected:
        for what, cls, detail in c.violations:
            ctx.report(cls, what, detail, replay_clone)
    totals = travcheck.run_plans(ctx, plans(ctx.tier), 100 if not ctx.thorough else 700, replay_trav)
    ctx.bounds = {"eager_menu": [f"{n} {kw}" for n, kw in EAGER_MENU + (EAGER_THOROUGH if ctx.thorough else [])], "deep_cloning": "a test with 2 parents for one state and chains of 1..4 tests below it, optionally two dependants at level 1 or 2 (real nodes of the sample suite, chained as the repository's cloning tests do)", "symbolic_shape": {"nodes": _shape["K"], "edges": "every forward edge absent or based on 1 or 2 objects (solver variable)"}, **{p["name"]: p["bounds"] for p in plans(ctx.tier)}}
    ctx.assumptions = ["selections come from a concrete menu of the shipped sample suite (the Cartesian parser cannot be executed on symbolic strings); other selections are outside the claim", "symbolic shape: real nodes of one parsed graph, their parsed edges removed"]
    ctx.coverage["counters"] = totals
    ctx.coverage["explanation"] = "structural oracle over graphs built by the real parsing code: concrete menu (eager), every lazily expanded graph reached under solver-chosen schedules, and a symbolic-edge family for the shared-root attachment"

"""Exploration plans (scenario x bounds x monitors) of the traversal-based properties."""

from __future__ import annotations

from typing import Any

from . import monitors, trav

M = monitors
DEEP = trav.DEEP_PRESENT
ALL9 = ["PASS", "FAIL", "ERROR", "WARN", "SKIP", "CANCEL", "INTERRUPTED", "NONE"]


def plan(name: str, scenario: trav.Scenario, mons: list[Any], bounds: dict[str, Any] | None = None, **cfg: Any) -> dict[str, Any]:
    extra = {k: cfg.pop(k) for k in ("setup", "traverse_params", "split_depth", "min_tasks") if k in cfg}
    config = trav.Config(**cfg)
    b = {"scenario": (f"{scenario.restriction} on {scenario.nets} ({'lazy' if scenario.lazy else 'eager'} parsing)" if not isinstance(scenario, trav.ToolScenario) else f"tool {scenario.tool} vms={sorted(scenario.vm_strs)} nets={scenario.nets} {scenario.vms_params}"), "K": config.K, "nonpassing_executions": f"<= {config.max_nonpass}", "statuses": config.statuses, "pool_bits": config.pool_bits, "pool_states": config.pool_states, "pool_fixed": config.pool_fixed}
    b.update(scenario.params)
    b.update(bounds or {})
    return dict(name=name, scenario=scenario, config=config, monitors=mons, bounds=b, **extra)


def c01(tier: str) -> list[dict[str, Any]]:
    m = [M.c01]
    out = [
        plan("G2 two chains, 2 workers, initial pools symbolic", trav.menu("G2"), m, K=1, statuses=["PASS"], pool_bits="all", pool_states=["install", "customize"]),
        plan("G3 two leaves, 2 workers, one failure anywhere", trav.menu("G3"), m, K=1, statuses=["PASS", "FAIL"], max_nonpass=1, pool_bits="all", pool_states=["linux_virtuser", "windows_virtuser"], pool_fixed=DEEP),
        plan("G1 eager, 2 workers, one failure or missing result", trav.menu("G1", lazy=False), m, K=1, statuses=["PASS", "FAIL", "NONE"], max_nonpass=1, pool_bits="shared", pool_states=["customize", "on_customize"]),
        plan("G8 removable state with a dependant, one worker excluded by its restrictions", trav.menu("G8"), m, K=1, statuses=["PASS"], pool_fixed={**DEEP, "linux_virtuser": ["shared"], "windows_virtuser": ["shared"], "connect": ["shared"]}),
        plan("G2 with a Fedora vm1 (both vms need a setup of the same name), 1 worker", trav.menu("G2", nets="net1", vm_strs={"vm1": "only Fedora\n", "vm2": "only Win10\n", "vm3": "only Ubuntu\n"}, label="G2-fedora"), m, K=1, statuses=["PASS"]),
        plan("composed: G2 2 workers judged by the real states.setup/pool layer", trav.menu("G2"), [M.c01_composed], K=1, statuses=["PASS", "FAIL"], max_nonpass=1, pool_bits="all", pool_states=["customize"], pool_fixed={"install": ["shared"]}, real_layer=True,
             bounds={"oracle": "real states.setup.get_states over the real SourcedStateBackend/RootSourcedStateBackend with the test's own parameters; storage = store model"}),
        plan("G1 reruns of failures only: a second worker meets a setup test that is still running", trav.menu("G1", params={"max_tries": "2", "rerun_status": "fail error"}, label="G1-tries2-rerun"), m, K=1, statuses=["PASS"], pool_fixed=DEEP),
        plan("G9 two leaves, the shared setup ends with a warning", trav.menu("G9", label="G9-warn"), m, K=1, statuses=["PASS", "WARN"], max_nonpass=1, pool_fixed=DEEP),
        plan("G9 two leaves, reuse scope narrowed to own+shared, 2 workers", trav.menu("G9", params={"pool_scope": "own shared"}, label="G9-ownshared"), m, K=1, statuses=["PASS"], pool_fixed={"install": ["shared"]}),
        plan("G8b a removable state with a lazily expanded dependant of another worker", trav.menu("G8b"), m, K=1, statuses=["PASS"], pool_fixed=DEEP),
    ]
    if tier == "thorough":
        out += [
            plan("G2 eager, 2 workers, pools symbolic, one failure", trav.menu("G2", lazy=False), m, K=2, statuses=["PASS", "FAIL"], max_nonpass=1, pool_bits="all", pool_states=["install", "customize", "connect"]),
            plan("G1 eager, 3 workers, one failure", trav.menu("G1x3", lazy=False), m, K=1, statuses=["PASS", "FAIL", "NONE"], max_nonpass=1, pool_bits="shared", pool_states=["customize", "on_customize"]),
            plan("G3 3 workers, two failures", trav.menu("G3x3"), m, K=1, statuses=["PASS", "FAIL", "WARN"], max_nonpass=2, pool_bits="all", pool_states=["linux_virtuser", "windows_virtuser", "guisetup.noop"], pool_fixed=DEEP),
            plan("G4 cloning, 2 workers", trav.menu("G4"), m, K=1, statuses=["PASS", "FAIL"], max_nonpass=1, pool_bits="shared", pool_states=["connect", "guisetup.noop", "guisetup.clicked"], pool_fixed={**DEEP, "linux_virtuser": ["shared"], "windows_virtuser": ["shared"]}),
            plan("G6 remote clusters, pools symbolic", trav.menu("G6b"), m, K=1, statuses=["PASS", "FAIL"], max_nonpass=1, pool_bits="all", pool_states=["install", "customize"]),
            plan("composed: G6 remote clusters judged by the real state layer", trav.menu("G6b"), [M.c01_composed], K=1, statuses=["PASS"], pool_bits="all", pool_states=["customize"], pool_fixed={"install": ["shared"]}, real_layer=True),
            plan("composed: G9 narrowed scope judged by the real state layer", trav.menu("G9", params={"pool_scope": "own shared"}, label="G9-ownshared"), [M.c01_composed], K=1, statuses=["PASS"], pool_fixed={"install": ["shared"]}, real_layer=True),
        ]
    return out


def c02(tier: str) -> list[dict[str, Any]]:
    m = [M.c02]
    some = ["PASS", "FAIL", "SKIP", "NONE"]
    out = [
        plan("G2 2 workers, outcomes incl. never reported", trav.menu("G2"), m, K=1, statuses=some, max_nonpass=1, pool_bits="shared", pool_states=["customize"]),
        plan("G1 2 workers, two non-passing outcomes, retries", trav.menu("G1", params={"max_tries": "2"}), m, K=1, statuses=some, max_nonpass=2),
        plan("G3 two leaves, one failure", trav.menu("G3"), m, K=1, statuses=["PASS", "ERROR"], max_nonpass=1, pool_fixed=DEEP),
        plan("G5 worker whose restrictions exclude the test", trav.menu("G5"), m, K=1, statuses=["PASS", "FAIL"], max_nonpass=1),
        plan("G1 dry run", trav.menu("G1", params={"dry_run": "yes"}, label="G1-dry"), m, K=1, statuses=["PASS"]),
        plan("G9 two leaves, reuse scope narrowed to own+shared, 1 and 2 workers", trav.menu("G9", params={"pool_scope": "own shared"}, label="G9-ownshared"), m, K=1, statuses=["PASS", "FAIL"], max_nonpass=1, pool_fixed={"install": ["shared"]}),
        plan("G9 narrowed scope, 1 worker", trav.menu("G9", nets="net1", params={"pool_scope": "own shared"}, label="G9x1-ownshared"), m, K=1, statuses=["PASS"], pool_fixed={"install": ["shared"]}),
        plan("G1 1 worker, no result is ever reported", trav.menu("G1x1", label="G1x1-noresult"), m, K=1, statuses=["NONE"], max_nonpass=99, pool_fixed=DEEP),
        plan("G1 2 workers, no result is ever reported, retries", trav.menu("G1", params={"max_tries": "2"}, label="G1-noresult"), m, K=1, statuses=["NONE"], max_nonpass=99, pool_fixed=DEEP),
        plan("virtual time: tests may hang past their timeout, explicit concurrency limit", trav.menu("G1", params={"test_timeout": "1", "max_tries": "2", "max_concurrent_tries": "1", "stop_status": "pass"}, label="G1-overrun-mct1"), m, timed=True, overrun=5.0, statuses=["PASS"], pool_fixed=DEEP,
             bounds={"time": "every execution lasts a symbolic real duration in (0, 5 x test_timeout): a waiting worker may exhaust its wait budget (test_timeout x max_tries) and join in"}),
        plan("virtual time: tests may hang past their timeout, defaults", trav.menu("G1", params={"test_timeout": "1"}, label="G1-overrun"), m, timed=True, overrun=3.0, statuses=["PASS"], pool_fixed=DEEP),
    ]
    if tier == "thorough":
        out += [
            plan("G2 eager all statuses", trav.menu("G2", lazy=False), m, K=2, statuses=ALL9, max_nonpass=1, pool_bits="shared", pool_states=["install", "customize"]),
            plan("G3 3 workers two failures", trav.menu("G3x3"), m, K=1, statuses=some, max_nonpass=2, pool_fixed=DEEP),
            plan("G4 cloning", trav.menu("G4"), m, K=1, statuses=["PASS", "FAIL"], max_nonpass=1, pool_fixed={**DEEP, "linux_virtuser": ["shared"], "windows_virtuser": ["shared"]}),
            plan("G1 3 workers retries 3", trav.menu("G1x3", params={"max_tries": "3"}), m, K=1, statuses=["PASS", "FAIL", "NONE"], max_nonpass=3),
            plan("G5b mixed restrictions", trav.menu("G5b"), m, K=1, statuses=["PASS", "FAIL"], max_nonpass=1),
            plan("G0 serial", trav.menu("G0"), m, K=1, statuses=ALL9, max_nonpass=2),
        ]
    return out


def c03(tier: str) -> list[dict[str, Any]]:
    m = [M.c03]
    out = [
        plan("G2 2 workers, default budget", trav.menu("G2"), m, K=1, statuses=["PASS", "FAIL"], max_nonpass=1, pool_bits="all", pool_states=["customize"]),
        plan("G2 2 workers, max_tries=2", trav.menu("G2", params={"max_tries": "2"}, label="G2-tries2"), m, K=1, statuses=["PASS", "FAIL"], max_nonpass=2),
        plan("G1 2 workers, max_tries=2, results may arrive while the runner already polls for them", trav.menu("G1", params={"max_tries": "2"}, label="G1-tries2-late"), m, K=1, statuses=["PASS", "LATE:PASS"], pool_fixed=DEEP, atomic_status_wait=False),
        plan("G3 1 worker, every state of the two-vm tests already there", trav.menu("G3", nets="net1", label="G3x1-all-present"), m, K=1, statuses=["PASS"], pool_fixed={**DEEP, "linux_virtuser": ["shared"], "windows_virtuser": ["shared"], "image1_vm2:guisetup.noop": ["shared"], "image1_vm2:guisetup.clicked": ["shared"]}),
        plan("G3 per-worker scope (swarm removed from pool_scope)", trav.menu("G3", params={"pool_scope": "own cluster shared"}, label="G3-noswarm"), m, K=1, statuses=["PASS", "FAIL"], max_nonpass=1, pool_fixed=DEEP),
        plan("G6 per-swarm scope (cluster removed, remote spawner)", trav.menu("G6b", params={"pool_scope": "own swarm shared"}, label="G6b-nocluster"), m, K=1, statuses=["PASS"], pool_bits="shared", pool_states=["customize"], pool_fixed={"install": ["shared"]}),
        plan("virtual time: G1 2 workers, durations symbolic below test_timeout=1", trav.menu("G1", params={"test_timeout": "1"}, label="G1-timed"), m, timed=True, statuses=["PASS"], pool_fixed={"install": ["shared"]},
             bounds={"time": "every execution lasts a symbolic real duration in (0, test_timeout); event order decided by the solver, long executions first"}),
        plan("G1 per-worker scope with retries, own pools symbolic", trav.menu("G1", params={"pool_scope": "own shared", "max_tries": "2"}, label="G1-ownshared-tries2"), m, K=1, statuses=["PASS"], pool_bits="all", pool_states=["customize", "on_customize"], pool_fixed={"install": ["own", "shared"]}),
    ]
    if tier == "thorough":
        out += [
            plan("G2 3 workers max_tries=3", trav.menu("G2x3", params={"max_tries": "3"}, label="G2x3-tries3"), m, K=1, statuses=["PASS", "FAIL"], max_nonpass=2),
            plan("G3 3 workers per-worker scope", trav.menu("G3x3", params={"pool_scope": "own cluster shared"}, label="G3x3-noswarm"), m, K=1, statuses=["PASS", "FAIL"], max_nonpass=1, pool_fixed=DEEP),
            plan("G6 3 remote workers per-swarm scope", trav.menu("G6", params={"pool_scope": "own swarm shared"}, label="G6-nocluster"), m, K=1, statuses=["PASS", "FAIL"], max_nonpass=1, pool_fixed=DEEP),
            plan("G4 cloning with retries", trav.menu("G4", params={"max_tries": "2"}, label="G4-tries2"), m, K=1, statuses=["PASS", "FAIL"], max_nonpass=1, pool_fixed={**DEEP, "linux_virtuser": ["shared"], "windows_virtuser": ["shared"]}),
            plan("G2 eager pools symbolic", trav.menu("G2", lazy=False), m, K=2, statuses=["PASS", "FAIL"], max_nonpass=1, pool_bits="all", pool_states=["install", "customize"]),
        ]
    return out


def c04(tier: str) -> list[dict[str, Any]]:
    m = [M.c04]
    out = [
        plan("G2 2 workers, two polls per wait", trav.menu("G2"), m, K=2, statuses=["PASS", "FAIL"], max_nonpass=1),
        plan("G1 3 workers converge on one chain", trav.menu("G1x3"), m, K=1, statuses=["PASS", "FAIL"], max_nonpass=1),
        plan("G2 max_tries=2 (concurrency limit 2)", trav.menu("G2", params={"max_tries": "2"}, label="G2-tries2"), m, K=1, statuses=["PASS", "FAIL"], max_nonpass=1),
        plan("G3 per-worker scope", trav.menu("G3", params={"pool_scope": "own cluster shared"}, label="G3-noswarm"), m, K=1, statuses=["PASS"], pool_fixed=DEEP),
        plan("G1 retries with explicit max_concurrent_tries=0 (serial)", trav.menu("G1", params={"max_tries": "2", "max_concurrent_tries": "0", "stop_status": "pass"}, label="G1-mct0"), m, K=1, statuses=["PASS", "FAIL"], max_nonpass=1, pool_fixed={"install": ["shared"]}),
        plan("virtual time: G1 2 workers, durations symbolic below test_timeout=1 (creation and chain)", trav.menu("G1", params={"test_timeout": "1"}, label="G1-timed"), m + [M.c03], timed=True, statuses=["PASS"],
             bounds={"time": "every execution lasts a symbolic real duration in (0, test_timeout); back-off sleeps as computed by the code; event order decided by the solver, long executions first"}),
        plan("virtual time: G1 2 workers, three tries one at a time (a failing setup occupies its test for all tries)", trav.menu("G1", params={"test_timeout": "1", "max_tries": "3", "max_concurrent_tries": "1", "stop_status": "pass"}, label="G1-timed-tries3-mct1"), m, timed=True, statuses=["FAIL", "PASS"], max_nonpass=2, pool_fixed={"install": ["shared"], "customize": ["shared"]}),
        plan("virtual time: G1 2 workers, max_tries=0 (one try, as max_tries=1)", trav.menu("G1", params={"test_timeout": "1", "max_tries": "0"}, label="G1-timed-tries0"), m + [M.c03], timed=True, statuses=["PASS"], pool_fixed={"install": ["shared"], "customize": ["shared"]}),
        plan("virtual time: G1 2 workers, setup present (2 executions)", trav.menu("G1", params={"test_timeout": "1"}, label="G1-timed-short"), m + [M.c03], timed=True, statuses=["PASS"], pool_fixed={"install": ["shared"], "customize": ["shared"]}),
    ]
    if tier == "thorough":
        out += [
            plan("virtual time: G2 2 workers", trav.menu("G2", params={"test_timeout": "1"}, label="G2-timed"), m + [M.c03], timed=True, statuses=["PASS"]),
            plan("virtual time: G1 3 workers", trav.menu("G1x3", params={"test_timeout": "1"}, label="G1x3-timed"), m + [M.c03], timed=True, statuses=["PASS"]),
            plan("virtual time: G2 3 workers (an idle worker between two occupied tests of different budgets)", trav.menu("G2x3", params={"test_timeout": "1"}, label="G2x3-timed"), m + [M.c03], timed=True, statuses=["PASS"], pool_fixed={"image1_vm2:install": ["shared"]}),
            plan("virtual time: G1 2 workers max_tries=2", trav.menu("G1", params={"test_timeout": "1", "max_tries": "2", "stop_status": "pass"}, label="G1-timed-tries2"), m, timed=True, statuses=["PASS", "FAIL"], max_nonpass=1),
            plan("G2 3 workers K=2", trav.menu("G2x3"), m, K=2, statuses=["PASS", "FAIL"], max_nonpass=1),
            plan("G2 max_concurrent_tries=1 with max_tries=3", trav.menu("G2", params={"max_tries": "3", "max_concurrent_tries": "1"}, label="G2-mct1"), m, K=1, statuses=["PASS", "FAIL"], max_nonpass=2),
            plan("G6 per-swarm scope", trav.menu("G6", params={"pool_scope": "own swarm shared"}, label="G6-nocluster"), m, K=1, statuses=["PASS"], pool_fixed=DEEP),
            plan("G3 3 workers", trav.menu("G3x3"), m, K=2, statuses=["PASS", "FAIL"], max_nonpass=1, pool_fixed=DEEP),
        ]
    return out


def _previous(run: Any) -> None:
    trav.setup_previous(run)


def _previous_passed(run: Any) -> None:
    """Every test has a result in the replayed job (PASS or FAIL, on a solver-chosen worker)."""
    trav.setup_previous(run, statuses=("PASS", "FAIL"))


def _extra_vm_state(run: Any) -> None:
    """An unusual but legal node: the test that saves a removable image state also saves an unmarked vm state."""
    for n in run.graph.nodes:
        if not n.is_flat() and "client_noop" in n.params["name"] and "tutorial_gui" in n.params["name"]:
            n.params["set_state_vms_vm2"] = "guirunning"


def _image_mark(run: Any) -> None:
    """The removal mark given for one image (unset_mode_images_image1_vm2) instead of for the vm's images."""
    for n in run.graph.nodes:
        if not n.is_flat() and n.params.get("unset_mode_images_vm2") == "fi":
            del n.params["unset_mode_images_vm2"]
            n.params["unset_mode_images_image1_vm2"] = "fi"


def _abort_mark(run: Any) -> None:
    """The documented removal mode 'fa' (force if present, abort if absent) instead of 'fi'."""
    for n in run.graph.nodes:
        if not n.is_flat() and n.params.get("unset_mode_images_vm2") == "fi":
            n.params["unset_mode_images_vm2"] = "fa"


def c05(tier: str) -> list[dict[str, Any]]:
    m = [M.c05]
    virt = {**DEEP, "linux_virtuser": ["shared"], "windows_virtuser": ["shared"]}
    out = [
        plan("G3 removable state at depth 1, 2 workers", trav.menu("G3"), m, K=1, statuses=["PASS", "FAIL"], max_nonpass=1, pool_fixed=DEEP),
        plan("G3 pool_filter=copy", trav.menu("G3", params={"pool_filter": "copy"}, label="G3-copy"), m, K=1, statuses=["PASS"], pool_fixed=virt),
        plan("G4 removable states at depth 2 with cloning", trav.menu("G4"), m, K=1, statuses=["PASS", "FAIL"], max_nonpass=1, pool_fixed=virt),
        plan("G8 removable state with a dependant, one worker excluded by its restrictions", trav.menu("G8"), m, K=1, statuses=["PASS"], pool_fixed={**virt, "connect": ["shared"]}),
        plan("G8b a removable state with a lazily expanded dependant of another worker", trav.menu("G8b"), m, K=1, statuses=["PASS"], pool_fixed=DEEP),
        plan("G3 eager, a node saving a removable image state and a reusable vm state", trav.menu("G3", lazy=False, label="G3-mixed-marks"), m, K=1, statuses=["PASS"], pool_fixed=virt, setup=_extra_vm_state),
        plan("G7l eager, removal mark on one image, retried dependant", trav.menu("G7l", lazy=False, params={"max_tries": "2"}, label="G7l-image-mark"), m, K=1, statuses=["PASS"], pool_fixed={**virt, "connect": ["shared"]}, setup=_image_mark),
        plan("G7l eager, removal mode fa, retried dependant", trav.menu("G7l", lazy=False, params={"max_tries": "2"}, label="G7l-fa-mark"), m, K=1, statuses=["PASS"], pool_fixed={**virt, "connect": ["shared"]}, setup=_abort_mark),
        plan("G4i two dependants of a removable state, retried", trav.menu("G4i", params={"max_tries": "2"}, label="G4i-tries2"), m, K=1, statuses=["PASS"], pool_fixed={**virt, "connect": ["shared"]}),
        plan("G7 removable state with a retried dependant, two remote workers of one cluster", trav.menu("G7", params={"max_tries": "2"}, label="G7-tries2"), m, K=1, statuses=["PASS"], pool_fixed={**virt, "connect": ["shared"]}),
    ]
    if tier == "thorough":
        out += [
            plan("G3 3 workers", trav.menu("G3x3"), m, K=2, statuses=["PASS", "FAIL"], max_nonpass=1, pool_fixed=DEEP),
            plan("G3 eager", trav.menu("G3", lazy=False), m, K=2, statuses=["PASS", "FAIL", "NONE"], max_nonpass=1, pool_bits="shared", pool_states=["guisetup.noop", "guisetup.clicked"], pool_fixed=virt),
            plan("G4f finale, 2 workers", trav.menu("G4f"), m, K=1, statuses=["PASS", "FAIL"], max_nonpass=1, pool_fixed=virt),
            plan("G6 removable state, workers of two clusters", trav.menu("G6d"), m, K=1, statuses=["PASS"], pool_fixed=DEEP),
            plan("G7 retried dependant, lxc workers", trav.menu("G7l", params={"max_tries": "2"}, label="G7l-tries2"), m, K=1, statuses=["PASS", "FAIL"], max_nonpass=1, pool_fixed={**virt, "connect": ["shared"]}),
            plan("G23 mixed leaves", trav.menu("G23"), m, K=1, statuses=["PASS", "FAIL"], max_nonpass=1, pool_fixed=DEEP),
            plan("G3 retries", trav.menu("G3", params={"max_tries": "2"}, label="G3-tries2"), m, K=1, statuses=["PASS", "FAIL"], max_nonpass=2, pool_fixed=virt),
        ]
    return out


def _no_list(run: Any) -> None:
    """A worker restriction with several excluded variants, written as in nets.cfg (comma and blank)."""
    run.graph.workers["net2"].net.update_restrs({"vm2": "no WinXP, Win10\n"})


def c08(tier: str) -> list[dict[str, Any]]:
    m = [M.c08]
    out = [
        plan("G2 a worker excluding two variants of vm2, the needed one listed second", trav.menu("G2", label="G2-no-list"), m, K=1, statuses=["PASS"], pool_fixed={"install": ["shared"]}, setup=_no_list),
        plan("G2 2 workers, who produces is schedule dependent", trav.menu("G2"), m, K=1, statuses=["PASS", "FAIL", "WARN"], max_nonpass=1),
        plan("G2 2 workers, a setup test is skipped or cancelled", trav.menu("G2"), m, K=1, statuses=["PASS", "SKIP", "CANCEL", "INTERRUPTED"], max_nonpass=1, pool_fixed={"install": ["shared"]}),
        plan("G3 2 workers", trav.menu("G3"), m, K=1, statuses=["PASS", "FAIL"], max_nonpass=1, pool_fixed=DEEP),
        plan("G5 worker with excluding restrictions", trav.menu("G5"), m, K=1, statuses=["PASS"]),
        plan("G6 remote clusters", trav.menu("G6b"), m, K=1, statuses=["PASS"], pool_fixed={"install": ["shared"]}),
        plan("G6c two remote workers behind one gateway", trav.menu("G6c"), m, K=1, statuses=["PASS"], pool_fixed=DEEP),
        plan("G2 eager with a replayed previous job (solver-chosen results and producing worker)", trav.menu("G2", lazy=False, params={"replay": "job1"}, label="G2-replay"), m, K=1, statuses=["PASS"], pool_bits="all", pool_states=["customize"], pool_fixed={"install": ["shared"]}, setup=_previous),
        plan("G1 a retried dependant learns about a producer that finished between its tries", trav.menu("G1", params={"max_tries": "3", "rerun_status": "fail"}, label="G1-rerun-fail"), m, K=1, statuses=["PASS", "FAIL"], max_nonpass=2, pool_fixed=DEEP),
        plan("G1 runtime slots: a container and the host process", trav.menu("G1", params={"slots": "101 "}, label="G1-slots"), m, K=1, statuses=["PASS"], pool_fixed=DEEP),
        plan("G1 eager with a replayed previous job, the rerun of a replayed passing setup fails slowly", trav.menu("G1", lazy=False, params={"replay": "job1"}, label="G1-replay-slow-fail"), m, K=1, statuses=["FAIL", "PASS"], max_nonpass=1, elapsed_options=["2", "1"], pool_fixed=DEEP, setup=_previous_passed),
        plan("G1 retries with varying recorded durations (PASS may be downgraded to WARN)", trav.menu("G1", params={"max_tries": "2"}, label="G1-elapsed"), m, K=1, statuses=["PASS"], elapsed_options=["1", "2"], pool_fixed={"install": ["shared"]}),
    ]
    if tier == "thorough":
        out += [
            plan("G2 3 workers", trav.menu("G2x3"), m, K=1, statuses=["PASS", "FAIL", "WARN"], max_nonpass=1),
            plan("G3 3 workers K=2", trav.menu("G3x3"), m, K=2, statuses=["PASS", "FAIL"], max_nonpass=1, pool_fixed=DEEP),
            plan("G6 three remote workers", trav.menu("G6"), m, K=1, statuses=["PASS", "FAIL"], max_nonpass=1, pool_fixed=DEEP),
            plan("G4 cloning", trav.menu("G4"), m, K=1, statuses=["PASS"], pool_fixed={**DEEP, "linux_virtuser": ["shared"], "windows_virtuser": ["shared"]}),
            plan("G5b mixed restrictions", trav.menu("G5b"), m, K=1, statuses=["PASS", "FAIL"], max_nonpass=1),
            plan("G1 retries with a failing setup try", trav.menu("G1", params={"max_tries": "2"}, label="G1-tries2-fail"), m, K=1, statuses=["PASS", "FAIL"], max_nonpass=1, pool_fixed=DEEP),
            plan("G1 two tries, passing only", trav.menu("G1", params={"max_tries": "2"}, label="G1-tries2"), m, K=1, statuses=["PASS"], pool_fixed=DEEP),
            plan("G1 runtime slots: the host process and a remote host", trav.menu("G1", params={"slots": " gateway.lan/3"}, label="G1-slots-remote"), m, K=1, statuses=["PASS"], pool_fixed=DEEP),
        ]
    return out


PLANS = {"C01": c01, "C02": c02, "C03": c03, "C04": c04, "C05": c05, "C08": c08}

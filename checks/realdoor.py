"""
Composed oracle: the real state layer (states.setup + states.pool) over the store model.

At the start of an execution the harness asks the *real* ``states.setup.get_states`` -
with the real ``SourcedStateBackend``/``RootSourcedStateBackend`` scope and proximity
logic and the very parameters the traversal handed to the test (``get_location_*``,
``nets_*_<worker>``, ``pool_scope``) - whether the test could fetch its required states.
Only the storage itself is a model: ``_show`` reads the acting worker's own pool,
``transport.show`` reads the pool a source string names.
"""

from __future__ import annotations

from typing import Any

from . import trav


def _object_key(params: Any) -> str:
    kind = params["object_type"].split("/")[-1]
    vm = params["vms"]
    oid = params.get("object_id", "")
    marker = f"{vm}-vms.{vm}."
    variant = oid.split(marker, 1)[1] if marker in oid else ""
    if kind == "images":
        return f"{params['images']}_{vm}|{variant}"
    if kind == "vms":
        return f"{vm}|{variant}"
    return f"net:{params.get('nets', '')}"


def make_backend(run: Any, wid: str, log: list[Any]) -> Any:
    from avocado_i2n.states.pool import RootSourcedStateBackend, SourcedStateBackend

    def listing(pool: str, params: Any) -> list[str]:
        state = params.get("check_state")
        if not state or state in trav.ROOT_STATES:
            return []
        if params["object_type"].split("/")[-1] == "nets":
            return []
        key = (_object_key(params), state)
        return [state] if run.bit(pool, key) else []

    class Ops:
        @staticmethod
        def compare(cache: str, pool: str, params: Any) -> bool:
            return True

    class Transport:
        ops = Ops

        @classmethod
        def show(cls, params: Any, object: Any = None) -> list[str]:
            src = params["show_location"]
            pool = "shared" if src.startswith(":") else src.split(":")[0]
            log.append(("transport.show", pool))
            return listing(pool, params)

        @classmethod
        def check_root(cls, params: Any, object: Any = None) -> bool:
            return True

        @classmethod
        def compare_chain(cls, *a: Any) -> bool:
            return True

        @classmethod
        def get(cls, params: Any, object: Any = None) -> None:
            log.append(("transport.get", params.get("get_location")))

        get_root = set_root = unset_root = set = unset = classmethod(lambda cls, params, object=None: None)

    class Backend(SourcedStateBackend, RootSourcedStateBackend):
        transport = Transport

        @classmethod
        def _show(cls, params: Any, object: Any = None) -> list[str]:
            return listing(wid, params)

        @classmethod
        def _check_root(cls, params: Any, object: Any = None) -> bool:
            return True

        @classmethod
        def _get(cls, params: Any, object: Any = None) -> None:
            log.append(("_get", params.get("get_state")))

        _get_root = _set_root = _unset_root = _set = _unset = classmethod(lambda cls, params, object=None: None)
        # providing the root (object existence) is not the subject here and needs image files
        get_root = classmethod(lambda cls, params, object=None: None)

    return Backend


def could_fetch(run: Any, node: Any, worker: Any) -> tuple[bool, str]:
    """Would the real get_states of this test succeed right now? (True, "") or (False, reason)"""
    from avocado.core import exceptions
    from avocado_i2n.states import setup as ss

    log: list[Any] = []
    backend = make_backend(run, worker.id, log)
    saved = ss.BACKENDS
    ss.BACKENDS = {name: backend for name in ("qcow2", "qcow2ext", "qcow2vt", "ramfile", "lvm", "lxc", "btrfs", "vmnet", "mock")}
    params = node.params.copy()
    # the state layer runs inside the test on the worker; permanent objects' external states are taken as given
    for obj in node.objects:
        if obj.key == "vms" and obj.is_permanent():
            for k in list(params.keys()):
                if k.startswith("get_state") and k.endswith("_" + obj.suffix):
                    del params[k]
    try:
        ss.get_states(params, None)
        return True, ""
    except exceptions.TestAbortError as e:
        return False, str(e)
    except exceptions.TestError as e:
        return False, "TestError: " + str(e)
    finally:
        ss.BACKENDS = saved

"""Property monitors over the event trace of one traversal path (see trav.Run)."""

from __future__ import annotations

from typing import Any

from . import trav

Finding = tuple[str, str, dict[str, Any]]  # (fingerprint, what, detail)


def _starts(run: Any) -> list[dict[str, Any]]:
    return [e for e in run.trace if e["kind"] == "start"]


def status_at(start_ev: dict[str, Any], idx: int) -> Any:
    """Outcome of an execution as known at trace position idx ("RUNNING" if it had not ended yet)."""
    if start_ev.get("end_idx", 10**9) < idx:
        return start_ev.get("status")
    return "RUNNING"


def _short(name: str) -> str:
    """Short worker-invariant label of a test (first variants of the bridged name)."""
    parts = name.split(".vms.")[0].split(".")
    return ".".join(parts[-3:])


def creation_group(ev: dict[str, Any]) -> str:
    """Executions that count as one: the two-step creation of an object."""
    if ev.get("object_root") or ev.get("type") == "shared_configure_install" or ev["prefix"].startswith("0"):
        root = ev.get("object_root") or ""
        objs = ",".join(sorted(k for k, _ in ev["sets"])) or root
        return "create:" + objs
    return ev["bridged"]


# ---------------------------------------------------------------------------
# C01


def c01(run: Any) -> list[Finding]:
    out: list[Finding] = []
    for ev in _starts(run):
        for need in ev["missing"]:
            key = (need["object"], need["state"])
            # excused: the producer (or the object's creation) was attempted in this run and did not pass
            excused = False
            for prev in run.trace[: ev["idx"]]:
                if prev["kind"] != "start":
                    continue
                produces = key in prev["sets"]
                creates = prev["prefix"].startswith("0") or bool(prev.get("object_root"))
                same_object = any(k[0].split("|")[0].split("_")[-1] == need["object"].split("|")[0].split("_")[-1] for k in prev["sets"])
                if (produces or (creates and same_object)) and status_at(prev, ev["idx"]) not in trav.SAVING and status_at(prev, ev["idx"]) != "RUNNING":
                    excused = True
                    break
            if excused:
                continue
            # classify for the fingerprint: where is the state, who skipped the producer
            holders = need.get("holders_now", [])
            in_shared = need.get("shared_now", False)
            in_flight = [p["worker"] for p in run.trace[: ev["idx"]] if p["kind"] == "start" and key in p["sets"] and status_at(p, ev["idx"]) == "RUNNING"]
            produced_here = [p["worker"] for p in run.trace[: ev["idx"]] if p["kind"] == "start" and key in p["sets"] and status_at(p, ev["idx"]) in trav.SAVING]
            removed = [d for d in run.trace[: ev["idx"]] if d["kind"] == "door" and d["action"] == "unset" and any((r[0], r[1]) == key for r in d["requests"])]
            incompat = any(n.is_flat() and len(n.incompatible_workers) > 0 for n in run.graph.nodes)
            if removed:
                cause = "removed by a cleanup earlier in this run although this dependant was still pending" + (" (a worker's restrictions exclude a selected test, which disables the postponement of cleanups)" if incompat else "")
            elif produced_here:
                statuses = sorted({p.get("status") for p in run.trace[: ev["idx"]] if p["kind"] == "start" and key in p["sets"] and status_at(p, ev["idx"]) in trav.SAVING})
                cause = f"produced in this run by {'another worker' if ev['worker'] not in produced_here else 'this worker'} with status {'/'.join(statuses)} but that pool is not among the instructed sources"
            elif holders and not in_shared:
                cause = "state only in another worker's own pool (left by a previous run): the holder skipped the producer after its scan, this worker skipped it as finished"
            elif in_shared:
                cause = "state in the shared pool but the shared pool is not permitted/instructed"
            elif in_flight:
                cause = "its producer is still running on another worker" if ev["worker"] not in in_flight else "its producer is still running"
            else:
                cause = "state exists nowhere and its producer was not attempted"
            fp = f"C01 cause={cause}"
            out.append((fp, f"{ev['worker']} started {_short(ev['bridged'])} without its required state {need['state']} of {need['suffix']}: {cause}", {"need": {k: v for k, v in need.items()}, "holders": holders, "instructed": need.get("locations")}))
    return out


def c01_composed(run: Any) -> list[Finding]:
    """C01 judged by the real state layer (states.setup.get_states over the real pool backends) instead of the model."""
    out: list[Finding] = []
    for ev in _starts(run):
        why = ev.get("real_missing")
        if why is None:
            continue
        # excused exactly as in c01: a producer of a needed state (or the creation) ended before without passing
        excused = False
        for need in ev["needs"]:
            key = (need["object"], need["state"])
            for prev in run.trace[: ev["idx"]]:
                if prev["kind"] != "start":
                    continue
                produces = key in prev["sets"]
                creates = prev["prefix"].startswith("0") or bool(prev.get("object_root"))
                same_object = any(k[0].split("|")[0].split("_")[-1] == need["object"].split("|")[0].split("_")[-1] for k in prev["sets"])
                st = status_at(prev, ev["idx"])
                if (produces or (creates and same_object)) and st not in trav.SAVING and st != "RUNNING":
                    excused = True
        if excused:
            continue
        model = "the store model agrees" if ev["missing"] and not any("real_layer" in m for m in ev["missing"]) else "the store model found the states"
        known = c01(run)
        if known and all("cause=" in k[0] for k in known) and ev["missing"] and not any("real_layer" in m for m in ev["missing"]):
            # same event as the model-based monitor: keep its cause class so that known findings match
            out += [k for k in known if ev["worker"] in k[1]][:1] or known[:1]
            continue
        out.append(("C01 composed: the real state layer cannot fetch a required state", f"{ev['worker']} started {_short(ev['bridged'])} but the real get_states aborts: {why[:160]} ({model})", {}))
    return out


# ---------------------------------------------------------------------------
# C02


def c02(run: Any) -> list[Finding]:
    out: list[Finding] = []
    sc = run.scenario.name
    if run.crash is not None:
        kind = type(run.crash).__name__
        exc = getattr(run.crash, "exc", run.crash)
        out.append((f"C02 {sc} {kind} {type(exc).__name__}", f"traversal did not end cleanly: {run.crash}", {}))
        return out
    dry = run.config.node_params.get("dry_run") == "yes" or run.scenario.params.get("dry_run") == "yes"
    starts = _starts(run)
    if dry:
        doors = [e for e in run.trace if e["kind"] == "door"]
        if starts or doors:
            out.append((f"C02 {sc} dry_run executes", f"dry run executed {len(starts)} tests and made {len(doors)} state requests", {}))
        return out
    # every selected leaf compatible with some worker was executed and has a definite status
    graph = run.graph
    executed = {e["bridged"] for e in starts}
    for node in graph.nodes:
        if node.is_shared_root() or node.is_flat():
            continue
        for r in node.results:
            if r["status"] == "UNKNOWN":
                out.append((f"C02 {sc} pending result {_short(trav.bridged_name(node))}", f"{node.params['shortname']} is left with a pending (UNKNOWN) result at the end of the run", {"results": [x["status"] for x in node.results]}))
    for leaf in selected_leaves(graph):
        copies = leaf["copies"]
        if not copies:
            if leaf["compatible"]:
                out.append((f"C02 {sc} leaf not expanded {leaf['name']}", f"selected test {leaf['name']} was never expanded for any compatible worker", {}))
            continue
        names = {trav.bridged_name(c) for c in copies}
        if not (names & executed):
            out.append((f"C02 {sc} leaf not executed {leaf['name']}", f"selected test {leaf['name']} was not executed by any worker", {}))
    return out


def selected_leaves(graph: Any) -> list[dict[str, Any]]:
    """Selected tests: flat nodes (lazy) or childless composite nodes (eager), with their composite copies."""
    out = []
    flat = [n for n in graph.nodes if n.is_flat() and not n.is_shared_root()]
    if flat:
        for f in flat:
            copies = [c for c in f.cleanup_nodes if not c.is_flat() and len(c.cloned_nodes) == 0]
            n_workers = len(graph.workers)
            out.append({"name": f.params["shortname"], "copies": copies, "compatible": len(f.incompatible_workers) < n_workers})
        return out
    groups: dict[str, list[Any]] = {}
    for n in graph.nodes:
        if n.is_shared_root() or n.is_flat() or len(n.cloned_nodes) > 0:
            continue
        if len(n.cleanup_nodes) == 0:
            groups.setdefault(trav.bridged_name(n), []).append(n)
    for name, copies in groups.items():
        out.append({"name": _short(name), "copies": copies, "compatible": True})
    return out


# ---------------------------------------------------------------------------
# C03


def c03(run: Any) -> list[Finding]:
    out: list[Finding] = []
    sc = run.scenario.name
    counts: dict[tuple[str, str], int] = {}
    for ev in _starts(run):
        node = ev["node"]
        if node.is_flat() or len(node.cloned_nodes) > 0:
            out.append((f"C03 {sc} runs flat-or-clone-source {_short(ev['bridged'])}", f"{ev['worker']} executed a flat test or a clone source: {ev['shortname']}", {}))
        key = (ev["bridged"], ev["scope"])
        counts[key] = counts.get(key, 0) + 1
        # the configured budget (the run's own setting where given, else the test's parameter)
        limit = max(1, int(run.scenario.params.get("max_tries", ev["params"].get("max_tries", 1)) or 1))
        if counts[key] > limit:
            group = creation_group(ev)
            overlapped = any(
                creation_group(o) == group and o["worker"] != ev["worker"] and o["scope"] == ev["scope"]
                and any(o["idx"] < s["idx"] < o.get("end_idx", 10**9) or s["idx"] < o["idx"] < s.get("end_idx", 10**9) for s in _starts(run) if creation_group(s) == group and s["worker"] != o["worker"])
                for o in _starts(run) if o["idx"] <= ev["idx"]
            )
            if group.startswith("create:") and overlapped and limit > 1:
                fp = "C03 over budget: object creation steps when two workers create the object concurrently with retries enabled (the in-flight configuration step is not counted as a try)"
            else:
                fp = f"C03 {sc} over budget {_short(ev['bridged'])}"
            out.append((fp, f"{_short(ev['bridged'])} executed {counts[key]} times in scope {ev['scope']} (budget {limit}); this one by {ev['worker']}", {"scope": ev["scope"], "count": counts[key]}))
    # a setup test whose states were all present at its first examination is not executed in that scope
    first_check: dict[tuple[str, str], dict[str, Any]] = {}
    for ev in run.trace:
        if ev["kind"] == "door" and ev["action"] == "check":
            node_name = ev.get("node_bridged")
            if node_name is None:
                continue
            key = (node_name, ev.get("scope", "global"))
            first_check.setdefault(key, ev)
    for (name, scope), chk in first_check.items():
        if (chk.get("answers") and all(chk["answers"])) or chk.get("produced_available"):
            later = [e for e in _starts(run) if e["bridged"] == name and e["scope"] == scope and e["idx"] > chk["idx"]]
            if later and not any(d["kind"] == "door" and d["action"] == "unset" and d["idx"] < later[0]["idx"] and d["idx"] > chk["idx"] for d in run.trace):
                out.append((f"C03 {sc} reruns available setup {_short(name)}", f"{_short(name)} was executed by {later[0]['worker']} although all of its states were found when it was first examined in scope {scope}", {}))
    return out


# ---------------------------------------------------------------------------
# C04 (untimed part: mutual exclusion while the back-off budget is not exhausted)


def c04(run: Any) -> list[Finding]:
    out: list[Finding] = []
    sc = run.scenario.name
    starts = {e["exec"]: e for e in _starts(run)}
    for ev in _starts(run):
        group = creation_group(ev)
        same = [starts[x] for x in ev["running_now"] if creation_group(starts[x]) == group and starts[x]["scope"] == ev["scope"] and starts[x]["worker"] != ev["worker"]]
        # the configured limit: the traversal raises the node's own max_concurrent_tries when it lets a waiting
        # worker in, so the value is taken from the run's configuration where it is given there
        conf = run.scenario.params
        mct = conf.get("max_concurrent_tries", conf.get("max_tries")) if ("max_concurrent_tries" in conf or "max_tries" in conf) else ev["params"].get("max_concurrent_tries", ev["params"].get("max_tries", 1))
        limit = max(1, int(mct or 1))
        if len(same) + 1 > limit:
            out.append((f"C04 {sc} concurrent {_short(ev['bridged'])}", f"{ev['worker']} started {_short(ev['bridged'])} while {[s['worker'] for s in same]} were executing it in scope {ev['scope']} (limit {limit})", {}))
    # the creating worker holds the object between its two steps
    open_creations: dict[tuple[str, str], str] = {}
    for ev in run.trace:
        if ev["kind"] == "start" and creation_group(ev).startswith("create:"):
            key = (creation_group(ev), ev["scope"])
            holder = open_creations.get(key)
            limit = max(1, int(ev["params"].get("max_concurrent_tries", ev["params"].get("max_tries", 1)) or 1))
            if holder is not None and holder != ev["worker"] and limit == 1:
                out.append((f"C04 {sc} creation interleaved", f"{ev['worker']} started a creation step of {key[0]} between the two steps of {holder}", {}))
            if ev["prefix"].startswith("0"):
                open_creations[key] = ev["worker"]
        if ev["kind"] == "end":
            st = starts[ev["exec"]]
            if creation_group(st).startswith("create:"):
                key = (creation_group(st), st["scope"])
                # the second step (install itself) or a failed first step closes the creation
                if not st["prefix"].startswith("0") or ev["status"] in ("FAIL", "ERROR", "NONE"):
                    if open_creations.get(key) == st["worker"]:
                        del open_creations[key]
    return out


# ---------------------------------------------------------------------------
# C05


def c05(run: Any) -> list[Finding]:
    out: list[Finding] = []
    sc = run.scenario.name
    starts = _starts(run)
    pool_filter = run.scenario.params.get("pool_filter", "reuse")
    for ev in run.trace:
        if ev["kind"] != "door" or ev["action"] not in ("unset", "get"):
            continue
        if ev["action"] == "get":
            if pool_filter == "reuse":
                out.append((f"C05 {sc} copies with default filter", f"{ev['worker']} copied states while backing out although pool_filter is reuse: {ev['requests']}", {}))
            continue
        for obj, state, _src in ev["requests"]:
            key = (obj, state)
            if not ev.get("removable", {}).get(f"{obj}:{state}", False):
                out.append((f"C05 {sc} removes unmarked {state}", f"{ev['worker']} removed state {state} of {obj.split('|')[0]} which is not marked for removal", {}))
                continue
            running = [s for s in starts if s["idx"] < ev["idx"] and s.get("end_idx", 10**9) > ev["idx"] and (any((n["object"], n["state"]) == key for n in s["needs"]) or key in s["sets"])]
            if running:
                out.append((f"C05 {sc} removes in use {state}", f"{ev['worker']} removed {state} while {[(s['worker'], _short(s['bridged'])) for s in running]} was running", {}))
            pending = [s for s in starts if s["idx"] > ev["idx"] and any((n["object"], n["state"]) == key for n in s["needs"]) and s["scope"] == ev.get("scope", s["scope"])]
            if pending:
                incompat = any(n.is_flat() and len(n.incompatible_workers) > 0 for n in run.graph.nodes)
                fp = "C05 removes before dependant: a worker's restrictions exclude a selected test, which disables the postponement of cleanups" if incompat else f"C05 {sc} removes before dependant {state}"
                out.append((fp, f"{ev['worker']} removed {state} before its dependant {_short(pending[0]['bridged'])} was started by {pending[0]['worker']}", {}))
    return out


# ---------------------------------------------------------------------------
# C08


def slot_environment(slot: str, ip_prefix: str, default_port: str) -> dict[str, str]:
    """Reference for the documented meaning of a runtime slot: '' serial in the host process, 'N' container cN, 'gateway/N' remote host behind a forwarded port."""
    if "/" in slot:
        gateway, host = slot.split("/")
        return {"nets_gateway": gateway, "nets_host": host, "nets_spawner": "remote", "nets_shell_host": gateway, "nets_shell_port": "22" + host}
    if slot == "":
        return {"nets_gateway": "", "nets_host": "", "nets_spawner": "process", "nets_shell_host": "localhost", "nets_shell_port": default_port}
    return {"nets_gateway": "", "nets_host": "c" + slot, "nets_spawner": "lxc", "nets_shell_host": ip_prefix + "." + slot, "nets_shell_port": default_port}


def c08(run: Any) -> list[Finding]:
    out: list[Finding] = []
    sc = run.scenario.name
    graph = run.graph
    previous = getattr(run, "previous_results", [])
    slots = run.scenario.params.get("slots")
    slot_of = dict(zip(run.scenario.nets.split(" "), slots.split(" "))) if slots is not None else {}
    for ev in _starts(run):
        node, wid = ev["node"], ev["worker"]
        worker = graph.workers[wid]
        p = ev["params"]
        if wid in slot_of:
            want = slot_environment(slot_of[wid], str(p.get("nets_ip_prefix")), "22")
            for k, v in want.items():
                if str(p.get(k)) != v:
                    out.append((f"C08 {sc} slot environment {k}", f"{wid} was given the slot {slot_of[wid]!r} but executed {_short(ev['bridged'])} with {k}={p.get(k)!r} instead of {v!r}", {}))
        if p.get("nets") != wid or not (p["name"].endswith("." + wid) or ("." + wid + ".") in p["name"]):
            out.append((f"C08 {sc} foreign worker {_short(ev['bridged'])}", f"{wid} executed {ev['shortname']} which was parsed for nets={p.get('nets')}", {}))
        for k, v in worker.params.items():
            if k.startswith("nets_") and p.get(k) != v:
                out.append((f"C08 {sc} connection parameter {k}", f"{wid} executed {_short(ev['bridged'])} with {k}={p.get(k)!r} instead of its own {v!r}", {}))
        for need in ev["needs"]:
            if need["state"] in trav.ROOT_STATES or need["permanent"]:
                continue
            key = (need["object"], need["state"])
            named = set()
            for loc in need["locations"].split():
                src, _path = loc.split(":", 1)
                named.add(src if src else "shared")
            producers = {s["worker"] for s in run.trace[: ev["idx"]] if s["kind"] == "start" and key in s["sets"] and status_at(s, ev["idx"]) in trav.SAVING}
            producers |= {w for w, names in getattr(run, "previous_producers", {}).get(key, {}).items()}
            if "shared" not in named:
                out.append((f"C08 {sc} shared pool not named {_short(ev['bridged'])}", f"{_short(ev['bridged'])} on {wid} is not told about the shared pool for {need['state']}", {"locations": need["locations"]}))
            missing = producers - named
            spurious = named - producers - {"shared"}
            if missing:
                statuses = sorted({s.get("status") for s in run.trace[: ev["idx"]] if s["kind"] == "start" and key in s["sets"] and s["worker"] in missing})
                out.append((f"C08 {sc} producer not named status={'/'.join(map(str, statuses))}", f"{_short(ev['bridged'])} on {wid} needs {need['state']} which {sorted(missing)} produced (status {statuses}) but their pools are not named in {need['locations']!r}", {}))
            if spurious:
                out.append((f"C08 {sc} non-producer named {_short(ev['bridged'])}", f"{_short(ev['bridged'])} on {wid} names {sorted(spurious)} as sources of {need['state']} although they did not produce it", {}))
            for src in named - {"shared"}:
                if src not in graph.workers:
                    continue
                for k, v in graph.workers[src].params.items():
                    if k.startswith("nets_") and p.get(f"{k}_{src}") != v:
                        out.append((f"C08 {sc} source access parameter {k}", f"{_short(ev['bridged'])} on {wid}: access parameter {k}_{src}={p.get(f'{k}_{src}')!r} differs from the source worker's {v!r}", {}))
                        break
        # the execution is handed to the worker's own environment
        handle = ev.get("spawn_handle")
        if isinstance(handle, tuple):
            own = (worker.params["nets_shell_host"], str(worker.params["nets_shell_port"]))
            if handle != own:
                out.append((f"C08 {sc} foreign connection for execution", f"{_short(ev['bridged'])} of {wid} was spawned through the connection {handle}, the worker's own is {own}", {}))
        elif handle is not None and handle != (worker.params["nets_host"] or "process"):
            out.append((f"C08 {sc} foreign container for execution", f"{_short(ev['bridged'])} of {wid} was spawned in {handle}, the worker's own is {worker.params['nets_host']}", {}))
        # never on a worker whose restrictions exclude the test: the worker's own only/no lines per vm,
        # evaluated here on the variant names of the vms the test uses ("only A, B" / "no A, B": any of / none of)
        for obj in node.objects:
            if obj.key != "vms":
                continue
            variant = trav.vm_variant(obj)
            for line in worker.restrs.get(obj.suffix, "").splitlines():
                words = line.split(None, 1)
                if len(words) != 2 or words[0] not in ("only", "no"):
                    continue
                names = [w.strip() for w in words[1].split(",") if w.strip()]
                hit = any(("." + nm + ".") in ("." + variant + ".") for nm in names)
                if (words[0] == "only" and not hit) or (words[0] == "no" and hit):
                    out.append((f"C08 {sc} excluded variant", f"{wid} executed {ev['shortname']} with {obj.suffix} = {variant} although its restrictions say '{line.strip()}' for {obj.suffix}", {}))
        for flat in [n for n in node.setup_nodes if n.is_flat()]:
            if worker.net.long_suffix in flat.incompatible_workers:
                out.append((f"C08 {sc} excluded worker", f"{wid} executed {ev['shortname']} although its restrictions exclude it", {}))
    out += foreign_connections(run, "C08")
    return out


def foreign_connections(run: Any, pid: str) -> list[Finding]:
    """State control requests of a worker go through that worker's own connection."""
    out: list[Finding] = []
    sc = run.scenario.name
    for ev in run.trace:
        if ev["kind"] != "door" or ev.get("session") is None or ev["worker"] not in run.graph.workers:
            continue
        w = run.graph.workers[ev["worker"]]
        own = (w.params["nets_shell_host"], str(w.params["nets_shell_port"]))
        if ev["session"] != own and ev["session"] != (None, "None"):
            out.append((f"{pid} {sc} foreign connection for state control", f"state {ev['action']} of {ev['worker']} went through the connection {ev['session']}, the worker's own is {own}", {}))
    return out


# ---------------------------------------------------------------------------
# C10 (b): identifiers and own results


def c10_ids(run: Any) -> list[Finding]:
    out: list[Finding] = []
    sc = run.scenario.name
    seen: dict[tuple[str, str], dict[str, Any]] = {}
    for ev in _starts(run):
        key = (ev["name"], ev["uid"])
        if key in seen:
            out.append((f"C10 {sc} duplicate identifier", f"two executions of {ev['shortname']} carry the same identifier {ev['uid']}", {}))
        seen[key] = ev
        got = ev.get("recorded")
        want = ev.get("status")
        if want == "NONE":
            continue
        if got is not None and got != want and not (want == "PASS" and got == "WARN"):
            out.append((f"C10 {sc} foreign result", f"execution {ev['uid']} of {ev['shortname']} ended {want} but {got} was recorded for it", {}))
    return out


ALL = {"C01": c01, "C02": c02, "C03": c03, "C04": c04, "C05": c05, "C08": c08}

"""Run CrossHair (second engine) on contract modules over the real code and fold the verdicts into a check context."""

from __future__ import annotations

import os
import re
import subprocess
import sys
import time
from typing import Any

from . import common

HERE = os.path.dirname(os.path.abspath(__file__))


def _line_to_function(path: str) -> dict[int, str]:
    out, cur = {}, None
    for i, line in enumerate(open(path), 1):
        m = re.match(r"def (\w+)\(", line)
        if m:
            cur = m.group(1)
        if cur:
            out[i] = cur
    return out


def run_crosshair(ctx: common.Context, module: str, per_condition_timeout: int = 40, wall_timeout: int = 400) -> None:
    """
    ``module``: file name under checks/crosshair.  Contracts named ``*_twin`` are
    reachability witnesses and must be refuted; every other contract must be "Confirmed over
    all paths".  A counterexample is replayed by plain evaluation of the printed call against
    ``<name>_expected`` before it is reported; "Not confirmed" / "Unable to meet precondition"
    are recorded as inconclusive for this second engine and do not decide the check.
    """
    path = os.path.join(HERE, "crosshair", module)
    t0 = time.time()
    env = dict(os.environ, PYTHONWARNINGS="ignore")
    try:
        proc = subprocess.run([sys.executable, "-m", "crosshair", "check", "--report_all", "--per_condition_timeout", str(per_condition_timeout), path], capture_output=True, text=True, timeout=wall_timeout, env=env, cwd=common.VERIF)
        output = proc.stdout + proc.stderr
    except subprocess.TimeoutExpired as e:
        output = (e.stdout or b"").decode() if isinstance(e.stdout, bytes) else (e.stdout or "")
        ctx.part(f"crosshair {module}", result="timeout")
        return
    funcs = _line_to_function(path)
    verdicts: dict[str, str] = {}
    cex: dict[str, str] = {}
    for line in output.splitlines():
        m = re.match(r".*%s:(\d+): (info|error): (.*)" % re.escape(module), line)
        if not m:
            continue
        fn = funcs.get(int(m.group(1)), "?")
        msg = m.group(3)
        if msg.startswith("Confirmed over all paths"):
            verdicts[fn] = "confirmed"
        elif msg.startswith("false when calling") or "when calling" in msg:
            verdicts[fn] = "refuted"
            cm = re.search(r"when calling (.*?)(?: \(which returns|$)", msg)
            cex[fn] = cm.group(1) if cm else msg
        elif msg.startswith("Not confirmed"):
            verdicts[fn] = "not confirmed"
        elif msg.startswith("Unable to meet precondition"):
            verdicts[fn] = "unable to meet precondition"
        else:
            verdicts.setdefault(fn, msg[:80])
    ctx.part(f"crosshair {module}", verdicts=verdicts, seconds=round(time.time() - t0, 1), engine="crosshair-tool (per-path symbolic execution with z3)")
    for fn, v in verdicts.items():
        if fn.endswith("_twin"):
            if v != "refuted":
                ctx.parts[f"crosshair {module}"]["note_" + fn] = "reachability witness not refuted: the sibling contract may be vacuous for this engine"
            continue
        ctx.obligations += 1
        if v == "confirmed":
            ctx.discharged += 1
        elif v == "refuted":
            call = cex[fn]
            code = f"import sys; sys.path.insert(0, {os.path.join(HERE, 'crosshair')!r}); import {module[:-3]} as m; r = m.{call}; e = m.{fn}_expected{call[call.index('('):]}; print('REPRO' if r != e else 'SAME', repr(r), repr(e))"
            rp = subprocess.run([sys.executable, "-c", code], capture_output=True, text=True, timeout=120, env=env)
            if "REPRO" in rp.stdout:
                ctx.report(f"{ctx.pid} crosshair {fn}", f"CrossHair counterexample {call}: {rp.stdout.strip()}", {"crosshair_call": call, "module": module, "function": fn}, None)
            else:
                ctx.parts[f"crosshair {module}"]["note_" + fn] = f"counterexample {call} did not reproduce by plain evaluation: {rp.stdout.strip()[:100]} {rp.stderr.strip()[-100:]}"

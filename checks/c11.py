"""
C11 - command line selections and overrides mean what the documentation says
(repository side: the Cartesian parser itself is a concrete front end).

The real ``cmd_parser.params_from_cmd`` (with ``full_vm_params_and_strs`` and
``full_tests_params_and_str``; parser calls memoised) is run on every argument list of
bounded length over a menu of argument forms, the list chosen by the solver; the result
is compared with a reference function written from the README.  A second part checks on
the real ``Reparsable`` that an override dictionary is parsed after files and strings,
and on parsed test nodes that a ``K=V`` override reaches every parsed test.
"""

from __future__ import annotations

import re
from typing import Any

from engine import symx
from . import common, trav

MENU_QUICK = [
    "only=normal", "only=tutorial1", "only=minimal.quicktest", "no=tutorial2", "only=leaves..tutorial_gui", "only=minimal,normal",
    "only_vm1=Fedora", "no_vm2=Win7", "only_vm1=", "only_vm9=CentOS",
    "vms=vm1", "vms=vm2,vm3", "vms=vmX", "vms=vm1,vmX",
    "nets=net1,net2", "only_nets=cluster1", "no_nets=localhost",
    "aaa=b,c", "test_timeout=50", "malformed",
]
MENU_EXTRA = ["no=minimal", "only_vm3=Ubuntu", "nets=net3", "only=nonleaves", "=x", "get_mode=ia"]
_cfg = {"max_len": 2, "menu": MENU_QUICK}


class Reject(Exception):
    pass


def reference(args: list[str]) -> dict[str, Any]:
    """What the README says the command line means (raises Reject for documented errors)."""
    from avocado_i2n import params_parser as param

    vms = param.all_objects("vms")
    main = param.all_restrictions()
    defaults = {"vm1": "CentOS", "vm2": "Win10", "vm3": "Ubuntu"}
    tests_str = ""
    use_default_tests = True
    vm_strs = {v: "" for v in vms}
    vm_default = {v: True for v in vms}
    selected = list(vms)
    param_dict: dict[str, str] = {}
    nets_restricted = False
    nets_explicit = False
    for a in args:
        m = re.match(r"(\w+)=(.*)", a)
        if m is None:
            raise Reject("malformed")
        key, value = m.group(1), m.group(2)
        if key in ("only", "no"):
            if any(v in main for v in re.split(r",|\.|\.\.", value)):
                use_default_tests = False
            tests_str += f"{key} {value}\n"
        elif re.fullmatch(r"(only|no)_nets", key):
            if nets_explicit:
                raise Reject("nets restriction with explicit nets")
            nets_restricted = True
            restr = f"{key.split('_')[0]} {value}\n" if value else ""
            param_dict["nets"] = " ".join(param.all_suffixes_by_restriction(restr))
        elif key.startswith("only_") or key.startswith("no_"):
            kind, obj = key.split("_", 1)
            if obj not in vms:
                raise Reject("unknown object")
            vm_default[obj] = False
            vm_strs[obj] += f"{kind} {value}\n" if value else ""
        elif key == "vms":
            selected = value.split(",")
            if any(v not in vms for v in selected):
                raise Reject("unknown vm")
        elif key == "nets":
            if nets_restricted:
                raise Reject("explicit nets with a nets restriction")
            nets_explicit = True
            param_dict["nets"] = value.replace(",", " ")
        else:
            param_dict[key] = value.replace(",", " ")
    for v in vms:
        if vm_default[v]:
            vm_strs[v] += f"only {defaults[v]}\n"
    if use_default_tests:
        tests_str += "only normal\n"
    return {"tests_str": tests_str, "vm_strs": {v: s for v, s in vm_strs.items() if v in selected}, "param_dict": param_dict, "vms": " ".join(selected)}


def run_real(args: list[str]) -> tuple[str, Any]:
    from avocado_i2n import cmd_parser, params_parser

    config: dict[str, Any] = {"params": list(args)}
    try:
        cmd_parser.params_from_cmd(config)
    except ValueError as e:
        return "ValueError", str(e)
    except params_parser.EmptyCartesianProduct as e:
        return "Empty", str(e)[:80]
    return "ok", {"tests_str": config["tests_str"], "vm_strs": dict(config["vm_strs"]), "param_dict": dict(config["param_dict"]), "vms": config["vms_params"]["vms"]}


def compare(args: list[str]) -> tuple[bool, str, str]:
    """(agrees, class, message)"""
    kind, got = run_real(args)
    try:
        want = reference(args)
        rejected = None
    except Reject as r:
        want, rejected = None, str(r)
    if rejected is not None:
        if kind == "ValueError":
            return True, "", "rejected as documented"
        return False, f"accepts {rejected}", f"arguments {args} must be rejected ({rejected}) but gave {kind}"
    if kind == "ValueError":
        return False, "rejects valid arguments", f"arguments {args} are valid but were rejected: {got}"
    if kind == "Empty":
        # is the documented composition empty too? (the product itself is parser semantics)
        from avocado_i2n import params_parser as param

        control = param.Reparsable()
        control.parse_next_batch(base_file="sets.cfg", ovrwrt_file=param.tests_ovrwrt_file(), ovrwrt_str=want["tests_str"], ovrwrt_dict=want["param_dict"])
        try:
            control.get_parser()
        except param.EmptyCartesianProduct:
            return True, "", "empty product for the documented composition as well"
        return False, "rejects a valid selection as empty", f"arguments {args}: reported an empty selection, the documented composition {want['tests_str']!r} selects tests"
    def norm(v: Any) -> Any:
        # restriction strings are compared line by line modulo surrounding / repeated blanks
        if isinstance(v, str):
            return [" ".join(line.split()) for line in v.splitlines() if line.strip()]
        if isinstance(v, dict):
            return {k: norm(x) if "\n" in str(x) or k.startswith("vm") else " ".join(str(x).split()) for k, x in v.items()}
        return v

    for field in ("tests_str", "vm_strs", "param_dict", "vms"):
        if norm(got[field]) != norm(want[field]):
            return False, f"wrong {field}", f"arguments {args}: {field} is {got[field]!r}, documented {want[field]!r}"
    return True, "", "as documented"


def _factory():
    trav.install()
    col = common.Collector()

    def fn(eng: symx.Engine) -> Any:
        menu = _cfg["menu"]
        n = symx.choose(_cfg["max_len"] + 1, "n_args")
        args = [menu[symx.choose(len(menu), f"arg{i}")] for i in range(n)]
        ok, cls, msg = compare(args)
        col.count("command_lines")
        if "rejected" in msg:
            col.count("rejected")
        if len(col.samples) < 3 and n == _cfg["max_len"] and ok and "as documented" in msg:
            col.samples.append({"args": args, "outcome": msg})
        if not ok:
            raise symx.Violation(msg, {"args": args, "class": cls})
        return None

    def on_path(eng: symx.Engine, outcome: str, payload: Any) -> None:
        if outcome == "violation":
            col.violations.append((payload.what, payload.detail["class"], payload.detail))

    def collect() -> Any:
        col.functions = set(common.TRACER.seen)
        return col

    return fn, on_path, collect


# ---------------------------------------------------------------------------
# argument form: the language of argument strings the tokenizer accepts, decided by the solver

DOCUMENTED_FORM = r"(\w+)=(.*)"  # <key>=<val>, README and the error message of params_from_cmd


def tokenizer_calls(probe: str) -> list[tuple[str, str]]:
    """(function, pattern) of every call of the re module the real params_from_cmd makes on the whole argument."""
    import types

    from avocado_i2n import cmd_parser

    calls: list[tuple[str, str]] = []
    shim = types.ModuleType("re_shim")
    shim.__dict__.update({k: v for k, v in vars(re).items() if not k.startswith("__")})
    for fn in ("match", "search", "fullmatch"):
        def rec(pattern: Any, string: str, *a: Any, _fn: str = fn, **kw: Any) -> Any:
            if string == probe:
                calls.append((_fn, pattern if isinstance(pattern, str) else pattern.pattern))
            return getattr(re, _fn)(pattern, string, *a, **kw)
        setattr(shim, fn, rec)
    old = cmd_parser.re
    cmd_parser.re = shim
    try:
        run_real([probe])
    finally:
        cmd_parser.re = old
    return calls


def accepted_language(fn: str, pattern: str) -> Any:
    import z3
    from engine import smtgen

    tr = smtgen.Translated(re.compile(pattern))
    body = smtgen.seq_to_z3(tr.items)
    if fn != "fullmatch" and not tr.anchored_end:
        body = z3.Concat(body, smtgen.sigma_star())
    if fn == "search" and not tr.anchored_start:
        body = z3.Concat(smtgen.sigma_star(), body)
    return body


def malformed_verdict(arg: str) -> bool:
    """True iff the real params_from_cmd rejects the argument as malformed (not of the form <key>=<val>)."""
    kind, msg = run_real([arg])
    return kind == "ValueError" and "malformed" in str(msg)


def replay_form(data: dict[str, Any]) -> tuple[bool, str]:
    arg, want_rejected = data["form_arg"], data["want_rejected"]
    got = malformed_verdict(arg)
    return (got != want_rejected), f"argument {arg!r}: rejected as malformed={got}, documented form {DOCUMENTED_FORM!r} says {want_rejected}"


def check_argument_form(ctx: common.Context) -> None:
    import time

    import z3
    from engine import smtgen

    probe = "zz_probe=1"
    calls = tokenizer_calls(probe)
    result: dict[str, Any] = {"tokenizer_calls": calls, "max_length": 12}
    if calls:
        fn, pattern = calls[0]
        accepted = accepted_language(fn, pattern)
        documented = accepted_language("match", DOCUMENTED_FORM)
        x = z3.String("arg")
        for name, inside, outside, want_rejected in (("accepted_but_not_of_the_documented_form", accepted, documented, True), ("documented_form_but_rejected", documented, accepted, False)):
            sol = z3.Solver()
            sol.set("timeout", 60000)
            sol.add(z3.Length(x) <= 12, z3.InRe(x, inside), z3.Not(z3.InRe(x, outside)))
            t0 = time.time()
            r = str(sol.check())
            ctx.obligations += 1
            result[name] = {"result": r, "seconds": round(time.time() - t0, 2)}
            if r == "unsat":
                ctx.discharged += 1
            elif r == "sat":
                arg = smtgen._unescape(sol.model()[x].as_string())
                result[name]["witness"] = arg
                ctx.report(f"C11 argument form {name}", f"the tokenizer ({fn} {pattern!r}) and the documented form <key>=<val> disagree on {arg!r}", {"form_arg": arg, "want_rejected": want_rejected}, replay_form)
            else:
                ctx.note_inconclusive(f"argument form query {name}: {r}")
        # reachability twin: the accepted language is not empty
        sol = z3.Solver()
        sol.add(z3.Length(x) <= 12, z3.InRe(x, accepted))
        if str(sol.check()) != "sat":
            ctx.note_inconclusive("vacuous: the translated tokenizer accepts nothing")
    else:
        result["note"] = "the tokenizer does not use the re module on the whole argument: language query not applicable, concrete probes only"
    # concrete probes of the same clause (also cover a tokenizer that is not regex based)
    probes = [("only-vm1=Fedora", True), ("--only=minimal", True), ("=x", True), ("a b=c", True), ("no.vm2=Win10", True), ("@vms=vm2", True), ("abc", True), ("", True), ("k_1=", False), ("key=a=b", False), ("key=--x", False)]
    for arg, want_rejected in probes:
        got = malformed_verdict(arg)
        if got != want_rejected:
            ctx.report(f"C11 argument form probe {arg!r}", f"argument {arg!r}: rejected as malformed={got}, documented form says {want_rejected}", {"form_arg": arg, "want_rejected": want_rejected}, replay_form)
    result["probes"] = len(probes)
    ctx.part("argument form", **result)


def replay(data: dict[str, Any]) -> tuple[bool, str]:
    if "form_arg" in data:
        return replay_form(data)
    if "args" in data:
        ok, _cls, msg = compare(data["args"])
        return (not ok), msg
    return check_override_order()


def check_override_order() -> tuple[bool, str]:
    """A K=V override is applied after files and strings and reaches every parsed test."""
    from avocado_i2n import params_parser as param
    from avocado_i2n.cartgraph import TestGraph

    trav.install()
    rep = param.Reparsable()
    rep.parse_next_batch(base_file="groups-base.cfg", base_str="test_timeout = 11\n", base_dict={"test_timeout": "22"}, ovrwrt_str="test_timeout = 33\n", ovrwrt_dict={"test_timeout": "44"})
    kinds = [type(s).__name__ for s in rep.steps]
    if kinds != ["ParsedFile", "ParsedStr", "ParsedDict", "ParsedStr", "ParsedDict"]:
        return True, f"batch order is {kinds}"
    if rep.get_params()["test_timeout"] != "44":
        return True, f"override dictionary does not win: {rep.get_params()['test_timeout']}"
    for restr in ("normal..tutorial1", "leaves..tutorial_gui", "all..internal..customize"):
        nodes = TestGraph.parse_flat_nodes(restr, {"test_timeout": "77", "zzz_key": "a b"})
        if not nodes:
            return True, f"no tests parsed for {restr}"
        for n in nodes:
            if n.params.get("test_timeout") != "77" or n.params.get("zzz_key") != "a b":
                return True, f"override not applied to {n.params['shortname']}"
    return False, "overrides reach every parsed test"


def generated_lists() -> list[str]:
    """Every vms= / nets= value list of 1..3 distinct elements over known and unknown names, in every order."""
    import itertools

    out = []
    for key, names in (("vms", ["vm1", "vm2", "vm3", "vmX"]), ("nets", ["net1", "net2", "netX"])):
        for n in (1, 2, 3):
            for combo in itertools.permutations(names, n):
                out.append(f"{key}=" + ",".join(combo))
    return out


def run(ctx: common.Context) -> None:
    rounds = [
        ("argument lists", MENU_QUICK + (MENU_EXTRA if ctx.thorough else ["only_vm12=CentOS"]), 3 if ctx.thorough else 2),
        ("generated object lists next to one other argument", generated_lists() + ["only_vm1=Fedora", "only=normal", "only_nets=cluster1", "no_vm2=Win7"], 2),
    ]
    counters: dict[str, int] = {}
    for name, menu, max_len in rounds:
        _cfg["max_len"], _cfg["menu"] = max_len, menu
        exhausted, stats, collected, err = symx.explore_parallel(_factory, seed=ctx.seed, split_depth=2, deadline=ctx.deadline(100, 900), min_tasks=16)
        ctx.add_stats(stats)
        part = common.merge_collected(ctx, collected)
        for k, v in part.items():
            counters[k] = counters.get(k, 0) + v
        ctx.part(name, exhausted=exhausted, paths=stats.paths, counters=part, menu_size=len(menu), max_len=max_len)
        if err:
            ctx.note_inconclusive(err)
        if not exhausted:
            ctx.exhaustive = False
        for c in collected:
            for what, cls, detail in c.violations:
                ctx.report(f"C11 {cls}", what, detail, replay)
    collected = []
    _cfg["max_len"], _cfg["menu"] = rounds[0][2], rounds[0][1]
    if counters.get("rejected", 0) == 0:
        ctx.note_inconclusive("vacuous: no rejected command line")
    for c in collected:
        for what, cls, detail in c.violations:
            ctx.report(f"C11 {cls}", what, detail, replay)
    ctx.obligations += 1
    bad, msg = check_override_order()
    if bad:
        ctx.report("C11 override order", msg, {"override": True}, replay)
    else:
        ctx.discharged += 1
    ctx.part("override order", result=msg)
    check_argument_form(ctx)
    ctx.bounds = {"argument_list_length": f"0..{_cfg['max_len']}", "argument_menu": _cfg["menu"], "argument_form": "every single argument string of <= 12 characters over printable ASCII and tab (language inclusion both ways between the tokenizer's regular expression as called and the documented form <key>=<val>, z3 sequence theory)"}
    ctx.assumptions = ["argument strings are concrete menu entries (they pass re.match and the Cartesian parser); the equivalence with what the Cartesian parser yields for the composed restrictions is parser semantics and outside the claim", "reference function written from the README and the selftests' documented expectations (a later nets restriction replaces an earlier one)"]
    ctx.coverage["explanation"] = "exhaustive solver-driven enumeration of argument lists over a menu, real params_from_cmd against a reference function of the documentation"

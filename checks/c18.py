"""
C18 - the vm network model stays consistent and its address arithmetic is exact.

``netconfig.ipaddress`` is replaced by a bit-vector shim: an IPv4 address is a 32-bit
z3 term carried through the real string-based code as a ``str`` subclass whose equality
is symbolic (so the real ``dict`` registries keyed by address fork on address equality)
and whose text is a handle the shim can read back after ``"%s/%s" %`` formatting.

(V) kernels: mask_bit round trip, _get_network_ip, translate_address,
get_allocatable_address - validity queries over all 2^32 addresses per prefix length.
(P) the real VMNetwork.__init__/integrate_node/reattach_interface on stub vms with
symbolic interface addresses: every interface ends up in exactly one *registered*
netconfig whose subnet contains its address, registries are consistent.
"""

from __future__ import annotations

import itertools
import re
from typing import Any

import z3

from engine import symx
from . import common

_handles: dict[str, Any] = {}


def _dotted(v: int) -> str:
    return ".".join(str((v >> s) & 0xFF) for s in (24, 16, 8, 0))


def _parse_dotted(text: str) -> int:
    parts = text.split(".")
    if len(parts) != 4 or not all(p.isdigit() and 0 <= int(p) <= 255 for p in parts):
        raise ValueError(f"not an IPv4 address: {text!r}")
    return (int(parts[0]) << 24) | (int(parts[1]) << 16) | (int(parts[2]) << 8) | int(parts[3])


class SymIP(str):
    """An IPv4 address as text whose value is a 32-bit term."""

    bv: Any

    def __new__(cls, bv: Any) -> "SymIP":
        bv = z3.simplify(bv) if not isinstance(bv, int) else z3.BitVecVal(bv, 32)
        if z3.is_bv_value(bv):
            text = _dotted(bv.as_long())
        else:
            text = f"<ip{len(_handles)}>"
        obj = super().__new__(cls, text)
        obj.bv = bv
        _handles[text] = bv
        return obj

    def __eq__(self, other: Any) -> Any:  # type: ignore[override]
        if isinstance(other, SymIP):
            return symx.SymBool(self.bv == other.bv, label="ip==ip")
        if isinstance(other, str):
            try:
                return symx.SymBool(self.bv == z3.BitVecVal(_parse_dotted(other), 32), label="ip==text")
            except ValueError:
                return False
        return False

    def __ne__(self, other: Any) -> Any:  # type: ignore[override]
        r = self.__eq__(other)
        return ~r if isinstance(r, symx.SymBool) else not r

    def __hash__(self) -> int:
        return 5

    def split(self, sep: Any = None, maxsplit: int = -1) -> list[str]:  # type: ignore[override]
        if sep == "." and not z3.is_bv_value(self.bv):
            return [f"<o{i}>" for i in range(4)]
        return str.split(self, sep, maxsplit)


SIDE_CONDITIONS: list[Any] = []


class BVNum:
    """int(address) kept as a 32-bit term; every +/- records its no-wrap side condition (Python ints do not wrap)."""

    def __init__(self, bv: Any) -> None:
        self.bv = bv

    @staticmethod
    def _bv(o: Any) -> Any:
        if isinstance(o, BVNum):
            return o.bv
        if isinstance(o, int) and 0 <= o < 2**32:
            return z3.BitVecVal(o, 32)
        return None

    def __sub__(self, o: Any) -> Any:
        b = self._bv(o)
        if b is None:
            return NotImplemented
        SIDE_CONDITIONS.append(z3.BVSubNoUnderflow(self.bv, b, False))
        return BVNum(self.bv - b)

    def __rsub__(self, o: Any) -> Any:
        b = self._bv(o)
        if b is None:
            return NotImplemented
        SIDE_CONDITIONS.append(z3.BVSubNoUnderflow(b, self.bv, False))
        return BVNum(b - self.bv)

    def __add__(self, o: Any) -> Any:
        b = self._bv(o)
        if b is None:
            return NotImplemented
        SIDE_CONDITIONS.append(z3.BVAddNoOverflow(self.bv, b, False))
        return BVNum(self.bv + b)

    __radd__ = __add__


def to_bv(x: Any) -> Any:
    if isinstance(x, SymIP):
        return x.bv
    if isinstance(x, ShimAddress):
        return x.bv
    if isinstance(x, int):
        return z3.BitVecVal(x, 32)
    if isinstance(x, z3.ExprRef):
        return x
    if isinstance(x, BVNum):
        return x.bv
    text = str(x)
    if text in _handles:
        return _handles[text]
    return z3.BitVecVal(_parse_dotted(text), 32)


def mask_of(bits: int) -> int:
    return (0xFFFFFFFF << (32 - bits)) & 0xFFFFFFFF if bits else 0


class ShimAddress:
    def __init__(self, x: Any) -> None:
        self.bv = to_bv(x)

    def __add__(self, n: Any) -> "ShimAddress":
        nz = n.z if isinstance(n, (symx.SymInt,)) else n
        if isinstance(nz, int):
            return ShimAddress(self.bv + z3.BitVecVal(nz, 32))
        return ShimAddress(self.bv + z3.Int2BV(nz, 32))

    def __int__(self) -> Any:
        s = z3.simplify(self.bv)
        if z3.is_bv_value(s):
            return s.as_long()
        return BVNum(self.bv)

    def __str__(self) -> str:
        return SymIP(self.bv)

    def __eq__(self, o: Any) -> Any:  # type: ignore[override]
        return symx.SymBool(self.bv == to_bv(o))

    def __hash__(self) -> int:
        return 5


class ShimNetwork:
    def __init__(self, addr_bv: Any, bits: int) -> None:
        self.bits = bits
        self.mask = mask_of(bits)
        self.net_bv = addr_bv & z3.BitVecVal(self.mask, 32)

    @property
    def network_address(self) -> ShimAddress:
        return ShimAddress(self.net_bv)

    @property
    def netmask(self) -> ShimAddress:
        return ShimAddress(self.mask)

    def __contains__(self, item: Any) -> bool:
        bv = item.ip.bv if isinstance(item, ShimInterface) else to_bv(item)
        return bool(symx.SymBool((bv & z3.BitVecVal(self.mask, 32)) == self.net_bv, label="in_network"))


class ShimInterface:
    def __init__(self, text: Any) -> None:
        addr, _, bits = str(text).partition("/")
        if bits == "" or bits == "None":
            raise ValueError(f"no prefix length in {text!r}")
        if "." in bits:
            b = _parse_dotted(bits)
            n = bin(b).count("1")
            if mask_of(n) != b:
                raise ValueError("invalid netmask")
            bits = n
        self.bits = int(bits)
        if not 0 <= self.bits <= 32:
            raise ValueError("invalid prefix length")
        self.ip = ShimAddress(_handles.get(addr, addr) if addr in _handles else addr)
        self.network = ShimNetwork(self.ip.bv, self.bits)

    def __str__(self) -> str:
        return f"{SymIP(self.ip.bv)}/{self.bits}"


class IpaddressShim:
    IPv4Address = ShimAddress
    ip_interface = ShimInterface
    ip_address = ShimAddress


def install_shim() -> Any:
    from avocado_i2n.vmnet import netconfig

    saved = netconfig.ipaddress
    netconfig.ipaddress = IpaddressShim
    return saved


def int_of(x: Any) -> Any:
    return x


# ---------------------------------------------------------------------------
# (V) arithmetic kernels


def check_kernels(ctx: common.Context) -> None:
    from avocado_i2n.vmnet import netconfig as nc_mod
    from avocado_i2n.vmnet.netconfig import VMNetconfig

    saved = install_shim()
    # int() in translate_address is applied to shim addresses: route it through the symbolic integer
    saved_int = nc_mod.__dict__.get("int")
    nc_mod.int = lambda v, *a: v.__int__() if isinstance(v, ShimAddress) else __builtins__["int"](v, *a) if isinstance(__builtins__, dict) else __import__("builtins").int(v, *a)
    results = {"mask_bit_roundtrip": 0, "network_ip": 0, "translate": 0, "allocate": 0}
    violations: list[Any] = []
    try:
        def one(eng: symx.Engine) -> None:
            _handles.clear()
            bits = symx.choose(33, "prefix_length")
            # -- mask_bit setter/getter round trip, netmask is the mask of the prefix
            n = VMNetconfig()
            ip = z3.BitVec(eng.fresh("ip"), 32)
            n.net_ip = SymIP(ip)
            n.mask_bit = bits
            if n.netmask != _dotted(mask_of(bits)):
                raise symx.Violation(f"mask_bit={bits} gives netmask {n.netmask}", {"bits": bits, "class": "mask_bit setter"})
            if n.mask_bit != str(bits):
                raise symx.Violation(f"netmask {n.netmask} reads back as mask_bit {n.mask_bit}, set {bits}", {"bits": bits, "class": "mask_bit roundtrip"})
            results["mask_bit_roundtrip"] += 1
            # -- network address of an arbitrary address
            got = n._get_network_ip(SymIP(ip), n.mask_bit)
            if not eng.prove(to_bv(got) == (ip & z3.BitVecVal(mask_of(bits), 32)), "network address"):
                raise symx.Violation("network address is not ip & mask", {"bits": bits, "ip": _dotted(eng.last_model.eval(ip, model_completion=True).as_long()), "class": "network ip"})
            results["network_ip"] += 1
            # -- translate_address keeps the host offset and lands in the target subnet
            net = z3.BitVec(eng.fresh("net"), 32)
            nat = z3.BitVec(eng.fresh("nat"), 32)
            m = z3.BitVecVal(mask_of(bits), 32)
            eng.assume(net & ~m == 0, check=False)  # a network address
            eng.assume((ip & m) == net, check=False)  # the host is in the source subnet
            n.net_ip = SymIP(net)
            SIDE_CONDITIONS.clear()
            tr = n.translate_address(SymIP(ip), SymIP(nat))
            tr_bv = to_bv(tr)
            want = (nat & m) | (ip & ~m)
            if not eng.prove(z3.And(tr_bv == want, *SIDE_CONDITIONS), "translated address = target network + host offset (no integer wrap)"):
                mdl = eng.last_model
                raise symx.Violation(
                    "translate_address does not map the host to the same offset in the target subnet",
                    {"bits": bits, "class": "translate_address", "ip": _dotted(mdl.eval(ip, model_completion=True).as_long()), "net": _dotted(mdl.eval(net, model_completion=True).as_long()), "nat": _dotted(mdl.eval(nat, model_completion=True).as_long())},
                )
            results["translate"] += 1
            # -- allocation hands out every address of the range once, then reports exhaustion
            lo = symx.choose(3, "range_lo") + 1
            size = symx.choose(4, "range_size") + 1
            # the pool comes from the configured "range" through the real from_interface (both ends inclusive)
            class _Iface:
                pass

            ifc = _Iface()
            ifc.ip = SymIP(ip)
            ifc.params = {"netmask": _dotted(mask_of(bits)), "range": f"{lo}-{lo + size - 1}"}
            n.from_interface(ifc)
            if not eng.prove(to_bv(n.net_ip) == net, "network address of the reference interface"):
                raise symx.Violation("from_interface does not derive the network address of the interface", {"bits": bits, "class": "from_interface network"})
            seen = []
            for k in range(size):
                try:
                    a = n.get_allocatable_address()
                except IndexError:
                    raise symx.Violation(f"exhaustion reported after {k} of the {size} addresses of the configured range", {"bits": bits, "class": "allocate early exhaustion", "lo": lo, "size": size})
                abv = to_bv(a)
                if not eng.prove(abv == net + z3.BitVecVal(lo + k, 32), "k-th allocated address"):
                    raise symx.Violation("allocated address is not network + next free offset", {"bits": bits, "class": "allocate value", "k": k, "lo": lo, "size": size})
                seen.append(abv)
            try:
                n.get_allocatable_address()
                raise symx.Violation("allocation beyond the range did not report exhaustion", {"bits": bits, "class": "allocate exhaustion", "lo": lo, "size": size})
            except IndexError:
                pass
            results["allocate"] += 1

        def on_path(eng: symx.Engine, outcome: str, payload: Any) -> None:
            if outcome == "violation":
                violations.append(payload)

        eng = symx.Engine(seed=ctx.seed)
        try:
            exhausted = eng.explore(one, on_path=on_path)
        except symx.Inconclusive as inc:
            ctx.note_inconclusive(f"kernels: {inc}")
            exhausted = False
        ctx.add_stats(eng.stats)
        if not exhausted:
            ctx.exhaustive = False
        ctx.part("arithmetic kernels", exhausted=exhausted, paths=eng.stats.paths, counters=results)
        ctx.sample({"kernel_obligations": results})
    finally:
        nc_mod.ipaddress = saved
        if saved_int is None:
            nc_mod.__dict__.pop("int", None)
        else:
            nc_mod.int = saved_int
    for v in violations:
        ctx.report(f"C18 kernel {v.detail['class']}", v.what + f" [{ {k: x for k, x in v.detail.items() if k != 'class'} }]", v.detail, replay_kernel)


def replay_kernel(data: dict[str, Any]) -> tuple[bool, str]:
    """Concrete re-run with the real ipaddress module."""
    import ipaddress

    from avocado_i2n.vmnet.netconfig import VMNetconfig

    bits = data["bits"]
    cls = data["class"]
    n = VMNetconfig()
    if cls.startswith("mask_bit"):
        n.net_ip = "10.0.0.0"
        n.mask_bit = bits
        want = str(ipaddress.ip_network(f"0.0.0.0/{bits}").netmask)
        return (n.netmask != want or n.mask_bit != str(bits)), f"netmask {n.netmask} (expected {want}), mask_bit {n.mask_bit} (expected {bits})"
    if cls == "translate_address":
        n.net_ip = data["net"]
        n.mask_bit = bits
        got = n.translate_address(data["ip"], data["nat"])
        target = ipaddress.ip_interface(f"{data['nat']}/{bits}").network
        offset = int(ipaddress.IPv4Address(data["ip"])) - int(ipaddress.IPv4Address(data["net"]))
        want = str(target.network_address + offset)
        return got != want, f"translate_address({data['ip']}, {data['nat']}) in {data['net']}/{bits} = {got}, expected {want}"
    if cls == "network ip":
        got = n._get_network_ip(data["ip"], bits)
        want = str(ipaddress.ip_interface(f"{data['ip']}/{bits}").network.network_address)
        return got != want, f"{got} vs {want}"
    if cls.startswith("allocate"):
        class _Iface:
            pass

        lo, size = data["lo"], data["size"]
        bits = min(bits, 24) if lo + size >= 2 ** (32 - bits) else bits
        ifc = _Iface()
        ifc.ip = str(ipaddress.ip_network(f"10.0.0.0/{bits}").network_address + 1) if bits < 32 else "10.0.0.0"
        ifc.params = {"netmask": str(ipaddress.ip_network(f"0.0.0.0/{bits}").netmask), "range": f"{lo}-{lo + size - 1}"}
        n.from_interface(ifc)
        base = ipaddress.ip_interface(f"{ifc.ip}/{bits}").network.network_address
        got = []
        try:
            for _ in range(size + 1):
                got.append(n.get_allocatable_address())
        except IndexError:
            pass
        want = [str(base + lo + k) for k in range(size)]
        return got != want, f"range {lo}-{lo + size - 1}: handed out {got}, expected {want} and then exhaustion"
    return False, "no concrete replay for " + cls


# ---------------------------------------------------------------------------
# (P) network construction and reattachment

PREFIXES = [8, 16, 24, 30]
_cfg = {"max_vms": 2, "max_nics": 2, "reattach": 1}


class StubVM:
    def __init__(self, name: str, params: Any) -> None:
        self.name = name
        self.params = params
        self.remote_sessions: list[Any] = []


class StubEnv:
    def __init__(self) -> None:
        self.vms: dict[str, StubVM] = {}

    def get_vm(self, name: str) -> Any:
        return self.vms.get(name)

    def create_vm(self, vm_type: Any, target: Any, name: str, params: Any, bindir: str) -> StubVM:
        self.vms[name] = StubVM(name, params)
        return self.vms[name]


def network_invariants(net: Any, eng: symx.Engine | None, addrs: dict[str, Any]) -> tuple[str, str] | None:
    """(class, message) of the first broken invariant, or None."""

    def holds(f: Any) -> bool:
        if isinstance(f, bool):
            return f
        if eng is None:
            return bool(z3.is_true(z3.simplify(f)))
        return eng.prove(f, "invariant")

    registered = list(net.netconfigs.values())
    for key, nc in net.netconfigs.items():
        if not holds(to_bv(key) == to_bv(nc.net_ip)):
            return "registry key", f"netconfig registered under {key} has network address {nc.net_ip}"
    for ikey, iface in net.interfaces.items():
        if iface.netconfig is None:
            return "interface without netconfig", f"{ikey} has no network configuration"
        homes = [nc for nc in registered if any(i is iface for i in nc.interfaces.values())]
        if iface.netconfig not in registered:
            return "unregistered netconfig", f"{ikey} belongs to a network configuration ({iface.netconfig.net_ip}/{iface.netconfig.mask_bit}) that is not (any more) in the network's registry"
        if len(homes) != 1 or homes[0] is not iface.netconfig:
            return "interface in several netconfigs", f"{ikey} is listed by {len(homes)} registered network configurations"
        nc = iface.netconfig
        bits = int(nc.mask_bit)
        m = z3.BitVecVal(mask_of(bits), 32)
        if not holds((to_bv(iface.ip) & m) == to_bv(nc.net_ip)):
            return "address outside subnet", f"{ikey} address {iface.ip} is not in its netconfig {nc.net_ip}/{bits}"
        entries = [(k, i) for k, i in nc.interfaces.items() if i is iface]
        if len(entries) != 1 or not holds(to_bv(entries[0][0]) == to_bv(iface.ip)):
            return "stale registration", f"{ikey} is registered {len(entries)} times / under another address than its own {iface.ip}"
    for nc in registered:
        for k, i in nc.interfaces.items():
            if not any(i is x for x in net.interfaces.values()):
                return "ghost interface", f"netconfig {nc.net_ip} lists an interface unknown to the network"
    ifaces = list(net.interfaces.items())
    for (ka, a), (kb, b) in itertools.combinations(ifaces, 2):
        if a.netconfig is b.netconfig and not holds(to_bv(a.ip) != to_bv(b.ip)):
            return "duplicate address", f"{ka} and {kb} can have the same address in one network configuration"
    return None


def build_params(eng: Any, n_vms: int, n_nics: int, prefix_of: Any, ip_of: Any) -> Any:
    from virttest.utils_params import Params

    p = Params()
    p["vms"] = " ".join(f"vm{i + 1}" for i in range(n_vms))
    p["nics"] = " ".join(f"b{j + 1}" for j in range(n_nics))
    p["mac"] = "00:00:00:00:00:00"
    p["internet_nic"] = "b1"
    p["lan_nic"] = f"b{n_nics}"
    p["range"] = "100-102"
    for i in range(n_vms):
        for j in range(n_nics):
            vm, nic = f"vm{i + 1}", f"b{j + 1}"
            p[f"netmask_{nic}_{vm}"] = _dotted(mask_of(prefix_of(vm, nic)))
            p[f"ip_{nic}_{vm}"] = ip_of(vm, nic)
            p[f"netdst_{nic}_{vm}"] = f"virbr{i}{j}"
    return p


def _net_factory():
    from avocado_i2n.vmnet.network import VMNetwork

    col = common.Collector()

    def fn(eng: symx.Engine) -> Any:
        _handles.clear()
        saved = install_shim()
        try:
            n_vms = eng.pick(_cfg["max_vms"], "n_vms") + 1
            n_nics = eng.pick(_cfg["max_nics"], "n_nics") + 1
            prefixes: dict[tuple[str, str], int] = {}
            addrs: dict[str, Any] = {}

            def prefix_of(vm: str, nic: str) -> int:
                prefixes[(vm, nic)] = PREFIXES[eng.pick(len(PREFIXES), f"prefix_{vm}_{nic}")]
                return prefixes[(vm, nic)]

            def ip_of(vm: str, nic: str) -> SymIP:
                bv = z3.BitVec(eng.fresh(f"ip_{vm}_{nic}"), 32)
                addrs[f"{vm}.{nic}"] = bv
                return SymIP(bv)

            params = build_params(eng, n_vms, n_nics, prefix_of, ip_of)
            vals = list(addrs.values())
            for a, b in itertools.combinations(vals, 2):
                eng.assume(a != b, check=False)  # no duplicate addresses are configured
            outside: list[Any] = []
            for key, bv in addrs.items():
                vm, nic = key.split(".")
                m = mask_of(prefixes[(vm, nic)])
                # host addresses: any address of the subnet but the network address
                host = bv & z3.BitVecVal(~m & 0xFFFFFFFF, 32)
                eng.assume(host != 0, check=False)
                outside.append(z3.Or(z3.ULT(host, 100), z3.UGT(host, 102)))
            # static addresses may lie inside a DHCP pool (100-102); whether they do is decided once per path
            statics_outside = eng.decide(z3.And(*outside), "static addresses outside the DHCP pools")
            env = StubEnv()
            desc = {"vms": n_vms, "nics": n_nics, "prefixes": {f"{k[0]}.{k[1]}": v for k, v in prefixes.items()}, "static_addresses_outside_pools": statics_outside}
            try:
                net = VMNetwork(params, env)
            except IndexError as e:
                # documented misconfiguration error: two interfaces with different netmasks where one lies in the
                # other's subnet or both have the same network address.  The rejection is only legitimate if every
                # assignment of addresses on this path contains such a pair.
                pairs = []
                for (ka, a), (kb, b) in itertools.permutations(list(addrs.items()), 2):
                    pa, pb = prefixes[tuple(ka.split("."))], prefixes[tuple(kb.split("."))]
                    if pa == pb:
                        continue
                    ma, mb = z3.BitVecVal(mask_of(pa), 32), z3.BitVecVal(mask_of(pb), 32)
                    pairs.append(z3.Or((a & mb) == (b & mb), (a & ma) == (b & mb)))
                if not eng.prove(z3.Or(*pairs) if pairs else z3.BoolVal(False), "the rejected configuration contains interfaces with conflicting netmasks"):
                    model = eng.last_model if eng.last_model is not None else eng.current_model()
                    desc["addresses"] = {k: _dotted(model.eval(v, model_completion=True).as_long()) for k, v in addrs.items()} if model is not None else {}
                    raise symx.Violation(f"a consistent set of interfaces was rejected: {e}", {"case": desc, "class": "construct rejects consistent configuration", "steps": [], "expect": "constructs"})
                col.count("rejected_misconfiguration")
                return None
            except Exception as e:
                from avocado.core import exceptions

                if isinstance(e, exceptions.TestError):
                    col.count("rejected_by_validate")
                    return None
                raise
            col.count("networks")
            bad = network_invariants(net, eng, addrs)
            if bad:
                model = eng.last_model if eng.last_model is not None else eng.current_model()
                desc["addresses"] = {k: _dotted(model.eval(v, model_completion=True).as_long()) for k, v in addrs.items()} if model is not None else {}
                raise symx.Violation(f"after construction: {bad[1]}", {"case": desc, "class": f"construct {bad[0]}", "steps": []})
            # reattachments
            steps = []
            for r in range(_cfg["reattach"]):
                if n_vms < 2:
                    break
                a = eng.pick(n_vms, f"client{r}")
                b = eng.pick(n_vms, f"server{r}")
                if a == b:
                    continue
                client, server = env.vms[f"vm{a + 1}"], env.vms[f"vm{b + 1}"]
                steps.append((client.name, server.name))
                try:
                    net.reattach_interface(client, server)
                except IndexError as e:
                    # every registered network has the pool 100-102: with at most two reattachments it cannot be used up
                    if len(steps) <= 3 and statics_outside:
                        model = eng.current_model()
                        desc["addresses"] = {k: _dotted(model.eval(v, model_completion=True).as_long()) for k, v in addrs.items()} if model is not None else {}
                        raise symx.Violation(f"after reattaching {steps}: exhaustion reported although the pool 100-102 has free addresses: {e}", {"case": desc, "class": "reattach early exhaustion", "steps": steps, "expect": "free addresses"})
                    col.count("allocation_exhausted")
                    break
                col.count("reattachments")
                bad = network_invariants(net, eng, addrs)
                if bad:
                    model = eng.last_model if eng.last_model is not None else eng.current_model()
                    desc["addresses"] = {k: _dotted(model.eval(v, model_completion=True).as_long()) for k, v in addrs.items()} if model is not None else {}
                    raise symx.Violation(f"after reattaching {steps}: {bad[1]}", {"case": desc, "class": f"reattach {bad[0]}", "steps": steps})
            if len(col.samples) < 2 and n_vms == 2:
                col.samples.append({"case": desc, "netconfigs": len(net.netconfigs), "reattached": steps})
            return None
        finally:
            from avocado_i2n.vmnet import netconfig

            netconfig.ipaddress = saved

    def on_path(eng: symx.Engine, outcome: str, payload: Any) -> None:
        if outcome == "violation":
            col.violations.append((payload.what, payload.detail["class"], payload.detail))

    def collect() -> Any:
        col.functions = set(common.TRACER.seen)
        return col

    return fn, on_path, collect


def replay_network(data: dict[str, Any]) -> tuple[bool, str]:
    """Concrete re-run with the real ipaddress module and the model's addresses."""
    from avocado_i2n.vmnet.network import VMNetwork

    case = data["case"]
    if not case.get("addresses"):
        return False, "no concrete addresses in the counterexample"
    params = build_params(None, case["vms"], case["nics"], lambda vm, nic: case["prefixes"][f"{vm}.{nic}"], lambda vm, nic: case["addresses"][f"{vm}.{nic}"])
    env = StubEnv()
    try:
        net = VMNetwork(params, env)
    except IndexError as e:
        if data.get("expect") == "constructs":
            return True, f"rejected although no two interfaces have conflicting netmasks: {e}"
        return False, f"concrete run raised IndexError: {e}"
    except Exception as e:
        return False, f"concrete run raised {type(e).__name__}: {e}"
    if data.get("expect") == "constructs":
        return False, "constructed"
    try:
        for c, s in data.get("steps", []):
            net.reattach_interface(env.vms[c], env.vms[s])
    except IndexError as e:
        if data.get("expect") == "free addresses":
            return True, f"exhaustion reported with free addresses: {e}"
        return False, f"concrete run raised IndexError: {e}"
    except Exception as e:
        return False, f"concrete run raised {type(e).__name__}: {e}"
    if data.get("expect") == "free addresses":
        return False, "reattached"
    _handles.clear()
    bad = network_invariants(net, None, {})
    return (bad is not None), (bad[1] if bad else "network consistent")


def replay(data: dict[str, Any]) -> tuple[bool, str]:
    if "case" in data:
        return replay_network(data)
    return replay_kernel(data)


def run(ctx: common.Context) -> None:
    check_kernels(ctx)
    _cfg["max_vms"] = 3 if ctx.thorough else 2
    _cfg["max_nics"] = 2
    _cfg["reattach"] = 2 if ctx.thorough else 1
    exhausted, stats, collected, err = symx.explore_parallel(_net_factory, seed=ctx.seed, split_depth=4, deadline=ctx.deadline(140, 1100))
    ctx.add_stats(stats)
    counters = common.merge_collected(ctx, collected)
    ctx.part("network construction and reattachment", exhausted=exhausted, paths=stats.paths, counters=counters)
    if err:
        ctx.note_inconclusive(err)
    if not exhausted:
        ctx.exhaustive = False
    if counters.get("networks", 0) == 0:
        ctx.note_inconclusive("vacuous: no network constructed")
    for c in collected:
        for what, cls, detail in c.violations:
            ctx.report(f"C18 {cls}", what + f" [{detail['case']}]", detail, replay_network)
    ctx.bounds = {"kernels": "all 33 prefix lengths x all 32-bit addresses (bit-vector validity queries); allocation ranges of 1..4 offsets", "network": f"1..{_cfg['max_vms']} vms x 1..{_cfg['max_nics']} nics, prefix lengths {PREFIXES}, arbitrary distinct host addresses (32-bit), <= {_cfg['reattach']} reattachments"}
    ctx.assumptions = ["netconfig.ipaddress replaced by a bit-vector shim (IPv4Address, ip_interface, network/netmask); trusted: the shim has the semantics of the ipaddress module", "vm/env are stubs as in the selftests; configured addresses are distinct host addresses (inside or outside the DHCP pool 100-102)"]
    ctx.coverage["explanation"] = "the real netconfig/network code executed on 32-bit bit-vector addresses; kernels by validity queries per prefix length, the registries of the real VMNetwork fork on symbolic address equality"

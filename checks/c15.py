"""
C15 - the update tool reruns exactly the requested path and drops only its dependants.

The real ``intertest_setup.update`` (selftests' job seam) builds its flagged graph with
the real parsing/flagging code; ``run_workers`` hands it to the traversal harness, where
schedules and outcomes are solver-chosen.  Menu (L1): (from_state, to_state) pairs along
vm1's setup chain, vm selections, 1-2 workers.
"""

from __future__ import annotations

from typing import Any

from engine import symx
from . import common, monitors, trav, trav_plans, travcheck

CHAIN = {"install": None, "customize": "install", "on_customize": "customize", "connect": "customize", "linux_virtuser": "customize", "windows_virtuser": "customize"}
PRODUCER = {"install": "original.unattended_install", "customize": "internal.automated.customize", "on_customize": "internal.automated.on_customize", "connect": "internal.automated.connect"}


def expected_path(from_state: str, to_state: str) -> list[str] | None:
    """States on the path from..to (both included) along the documented chain, or None if not a path."""
    path = [to_state]
    cur = to_state
    while cur != from_state:
        cur = CHAIN.get(cur)
        if cur is None:
            return None
        path.append(cur)
    return list(reversed(path))


def derived_from(state: str, node_states: dict[str, set[str]]) -> set[str]:
    """States whose configured get_state chain reaches ``state`` (strict descendants)."""
    out = set()
    changed = True
    frontier = {state}
    while changed:
        changed = False
        for st, needs in node_states.items():
            if st not in out and st != state and needs & frontier:
                out.add(st)
                frontier.add(st)
                changed = True
    return out


def update_monitor(run: Any) -> list[Any]:
    sc = run.scenario
    out = []
    selected = sorted(sc.vm_strs)
    if run.tool_error is not None:
        if getattr(sc, "expect_error", False):
            return out
        return [(f"C15 {sc.name} rejected", f"update rejected a valid request: {run.tool_error}", {})]
    if getattr(sc, "expect_error", False):
        return [(f"C15 {sc.name} accepts missing state", "update accepted a from/to state that does not exist in the graph", {})]
    if run.crash is not None:
        return [(f"C15 {sc.name} crash", f"traversal failed: {run.crash}", {})]
    from . import structure

    for fp, what, detail in structure.worker_copies(run.graph, sc.name):
        out.append((fp.replace("C09", "C15"), "update graph: " + what, detail))
    out += [(fp.replace("C03", "C15"), what, d) for fp, what, d in monitors.c03(run) if "over budget" in fp]
    # "removes from every worker": each worker's removals reach that worker
    out += monitors.foreign_connections(run, "C15")
    starts = [e for e in run.trace if e["kind"] == "start"]
    for vm in selected:
        frm = sc.vms_params.get(f"from_state_{vm}", sc.vms_params.get("from_state", "install"))
        to = sc.vms_params.get(f"to_state_{vm}", sc.vms_params.get("to_state", "customize"))
        path = expected_path(frm, to)
        want = set()
        for st in path or []:
            want.add(st)
        # every selected variant of the vm gets the requested path
        variants = set()
        for g in run.tool_graphs:
            for n in g.nodes:
                if n.is_flat() or n.is_shared_root():
                    continue
                for obj in n.objects:
                    if obj.key == "vms" and obj.suffix == vm:
                        variants.add(trav.vm_variant(obj))
        got_by_variant: dict[str, set[str]] = {v: set() for v in variants}
        for e in starts:
            vms = e["params"].get("vms", "").split()
            if vms != [vm]:
                continue
            for k, st in e["sets"]:
                if st in trav.ROOT_STATES:
                    continue
                got_by_variant.setdefault(k.split("|")[1] if "|" in k else "", set()).add(st)
        if all(e.get("status") == "PASS" for e in starts):
            for variant, got_states in sorted(got_by_variant.items()):
                if got_states != want:
                    tag = "" if len(got_by_variant) == 1 else f" ({monitors._short(variant)})"
                    out.append((f"C15 {sc.name} executed states {vm}", f"update {frm}..{to} of {vm}{tag} executed the producers of {sorted(got_states)}, the requested path is {sorted(want)}", {}))
        # the pre-step of the creation runs exactly when install is on the path
        creates = [e for e in starts if e["params"].get("vms", "").split() == [vm] and e["prefix"].startswith("0")]
        if bool(creates) != ("install" in want):
            out.append((f"C15 {sc.name} creation step {vm}", f"update {frm}..{to} of {vm}: object creation {'ran' if creates else 'did not run'}", {}))
    for e in starts:
        vms = e["params"].get("vms", "").split()
        if not set(vms) <= set(selected):
            out.append((f"C15 {sc.name} executes other vm", f"update of {selected} executed {monitors._short(e['bridged'])} using {vms}", {}))
    # removals: only states of selected vms that derive from the target state, on every worker
    needs: dict[str, dict[str, set[str]]] = {vm: {} for vm in selected}
    for g in run.tool_graphs:
        for n in g.nodes:
            if n.is_flat() or n.is_shared_root():
                continue
            for obj in n.objects:
                if obj.key == "nets":
                    continue
                vm = obj.suffix if obj.key == "vms" else obj.composites[0].suffix
                if vm not in needs:
                    continue
                op = obj.object_typed_params(n.params)
                st = op.get("set_state")
                if not st or st in trav.ROOT_STATES:
                    continue
                gets = set()
                for o2 in n.objects:
                    if o2.key == "nets":
                        continue
                    vm2 = o2.suffix if o2.key == "vms" else o2.composites[0].suffix
                    if vm2 != vm:
                        continue
                    g2 = o2.object_typed_params(n.params).get("get_state")
                    if g2 and g2 not in trav.ROOT_STATES:
                        gets.add(g2)
                needs[vm].setdefault(st, set()).update(gets)
    unsets: dict[tuple[str, str, str], int] = {}
    for e in run.trace:
        if e["kind"] != "door" or e["action"] != "unset":
            continue
        for obj, st, _src in e["requests"]:
            vm = obj.split("|")[0].split("_")[-1]
            unsets[(e["worker"], vm, st)] = unsets.get((e["worker"], vm, st), 0) + 1
            if vm not in selected:
                out.append((f"C15 {sc.name} removes other vm state", f"update of {selected} removed {st} of {vm}", {}))
                continue
            to = sc.vms_params.get(f"to_state_{vm}", sc.vms_params.get("to_state", "customize"))
            derived = derived_from(to, needs[vm])
            if st not in derived:
                out.append((f"C15 {sc.name} removes non-derived state", f"update to {to} of {vm} removed {st}, which does not derive from {to}", {"derived": sorted(derived)}))
    if all(e.get("status") == "PASS" for e in starts):
        for vm in selected:
            to = sc.vms_params.get(f"to_state_{vm}", sc.vms_params.get("to_state", "customize"))
            derived = derived_from(to, needs[vm])
            for wid in run.graph.workers:
                for st in derived:
                    if (wid, vm, st) not in unsets:
                        out.append((f"C15 {sc.name} keeps derived state", f"update to {to} of {vm}: {st} derives from it but was not removed on {wid}", {}))
    return out


def T(name: str, frm: dict[str, str], vm_strs: dict[str, str], nets: str = "net1", expect_error: bool = False, **params: str) -> trav.ToolScenario:
    sc = trav.ToolScenario(name, "update", nets=nets, vm_strs=vm_strs, params=params, vms_params=frm)
    sc.expect_error = expect_error
    return sc


VM1 = {"vm1": "only CentOS\n"}
VM12 = {"vm1": "only CentOS\n", "vm2": "only Win10\n"}


def retry_monitor(run: Any) -> list[Any]:
    """every test of the update path is tried as often as max_tries, rerun_status and stop_status give (the C10 rule)"""
    from . import c10

    return [(fp.replace("C10", "C15"), what, d) for fp, what, d in c10.retry_count_monitor(run)]


def plans(tier: str) -> list[dict[str, Any]]:
    P = trav_plans.plan
    m = [update_monitor]
    out = [
        P("update install..customize of vm1", T("u-default", {}, VM1), m, K=1, statuses=["PASS", "FAIL"], max_nonpass=1),
        P("update customize..customize of vm1", T("u-cc", {"from_state": "customize", "to_state": "customize"}, VM1), m, K=1, statuses=["PASS"], pool_fixed={"install": ["own", "shared"]}),
        P("update customize..connect of vm1, install..customize of vm2, 2 workers", T("u-custom-2w", {"from_state_vm1": "customize", "to_state_vm1": "connect", "from_state_vm2": "install", "to_state_vm2": "customize"}, VM12, nets="net1 net2"), m, K=1, statuses=["PASS"], pool_fixed={"install": ["shared"]}),
        P("update default of vm1 vm2, 3 workers", T("u-default-3w", {}, VM12, nets="net1 net2 net3"), m, K=1, statuses=["PASS"]),
        P("update of the permanent vm3, 2 workers", T("u-vm3", {}, {"vm3": "only Ubuntu\n"}, nets="net1 net2"), m, K=1, statuses=["PASS"]),
        P("update customize..customize of both variants of vm1", T("u-cc-variants", {"from_state": "customize", "to_state": "customize"}, {"vm1": ""}), m, K=1, statuses=["PASS"], pool_fixed={"install": ["own", "shared"]}),
        P("update default of vm1, two remote workers behind one gateway", T("u-default-cluster", {}, VM1, nets="cluster1.net6 cluster1.net7"), m, K=1, statuses=["PASS"]),
        P("update customize..connect of vm1 with retries (max_tries=2, stop on pass), one failure", T("u-custom-retry", {"from_state": "customize", "to_state": "connect"}, VM1, max_tries="2", stop_status="pass"), m + [retry_monitor], K=1, statuses=["PASS", "FAIL"], max_nonpass=1, pool_fixed={"install": ["own", "shared"]}),
        P("update with a nonexistent target state", T("u-bad-to", {"to_state": "nonexistent"}, VM1, expect_error=True), m, K=1, statuses=["PASS"]),
    ]
    if tier == "thorough":
        out += [
            P("update install..install of vm1", T("u-ii", {"from_state": "install", "to_state": "install"}, VM1), m, K=1, statuses=["PASS"]),
            P("update customize..on_customize of vm1", T("u-co", {"from_state": "customize", "to_state": "on_customize"}, VM1), m, K=1, statuses=["PASS", "FAIL"], max_nonpass=1, pool_fixed={"install": ["own", "shared"]}),
            P("update with a nonexistent starting state", T("u-bad-from", {"from_state": "nonexistent", "to_state": "customize"}, VM1, expect_error=True), m, K=1, statuses=["PASS"]),
            P("update default of vm1 vm2, 2 workers, one failure", T("u-default-2w", {}, VM12, nets="net1 net2"), m, K=1, statuses=["PASS", "FAIL"], max_nonpass=1),
            P("update with retries", T("u-retry", {}, VM1, max_tries="2", stop_status="pass"), m + [retry_monitor], K=1, statuses=["PASS", "FAIL"], max_nonpass=1),
        ]
    return out


replay = travcheck.make_replay(plans)


def run(ctx: common.Context) -> None:
    travcheck.run_property(ctx, plans, replay, quick_s=150)
    ctx.assumptions.append("the tool is entered through the selftests' job seam (intertest_setup.new_job, TestWorker.start, SpawnerDispatcher replaced); TestRunner.run_workers hands the flagged graph to the scheduler")

"""
C16 - name lookups and visit counters are exact.

Real code executed symbolically: ``PrefixTree.insert/get/__contains__``,
``TestGraph.new_nodes/get_nodes_by_name``, ``EdgeRegister.register/
get_counters/get_workers``.  Names are lists of uninterpreted atoms with
symbolic equality (unbounded alphabet); the real ``dict``s fork on the
equality pattern.  At the end of each path the lookup result is concrete and
the oracle ("the name contains the query contiguously") is a z3 formula over
the atoms that is discharged as a validity query under the path condition.
"""

from __future__ import annotations

import itertools
from typing import Any

import z3

from engine import symx
from . import chrun, common


class SymDotted:
    """A dotted name whose variants are atoms."""

    def __init__(self, atoms: list[symx.SymAtom]) -> None:
        self.atoms = atoms

    def split(self, sep: str) -> list[symx.SymAtom]:
        assert sep == "."
        return list(self.atoms)

    def __repr__(self) -> str:
        return "<name " + ".".join(a.label for a in self.atoms) + ">"

    __str__ = __repr__

    def __format__(self, spec: str) -> str:
        return repr(self)


class StubNode:
    def __init__(self, idx: int, name: SymDotted) -> None:
        self.idx = idx
        self.params = {"name": name}

    def __repr__(self) -> str:
        return f"<node {self.idx}>"


def z_eq(a: symx.SymAtom, b: symx.SymAtom) -> Any:
    if a.tag != b.tag:
        return z3.BoolVal(False)
    return a.z == b.z


def contains_formula(name: list[symx.SymAtom], query: list[symx.SymAtom]) -> Any:
    alts = []
    for off in range(0, len(name) - len(query) + 1):
        alts.append(z3.And(*[z_eq(query[j], name[off + j]) for j in range(len(query))]))
    return z3.Or(*alts) if alts else z3.BoolVal(False)


def make_tree_harness(max_names: int, max_len: int, max_qlen: int):
    from avocado_i2n.cartgraph.graph import TestGraph

    col = common.Collector()

    def fn(eng: symx.Engine) -> Any:
        n_names = symx.choose(max_names, "n_names") + 1
        names: list[list[symx.SymAtom]] = []
        for i in range(n_names):
            ln = symx.choose(max_len, f"len{i}") + 1
            atoms = [symx.SymAtom(f"n{i}_{j}", tag="set" if j == 0 else "var") for j in range(ln)]
            # no variant repeated within a name
            for a, b in itertools.combinations(atoms[1:], 2):
                eng.assume(a.z != b.z, check=False)
            names.append(atoms)
        # names pairwise different as wholes
        for a, b in itertools.combinations(names, 2):
            if len(a) == len(b):
                eng.assume(z3.Or(*[x.z != y.z for x, y in zip(a, b)]), check=False)
        qlen = symx.choose(max_qlen, "qlen") + 1
        query = []
        for j in range(qlen):
            tag = "set" if eng.pick(2, f"qtag{j}") == 0 else "var"
            query.append(symx.SymAtom(f"q{j}", tag=tag))
        # insertion order: the names are symmetric symbolic values with independently
        # enumerated lengths, so inserting them in index order covers every order
        perm = list(range(n_names))
        graph = TestGraph()
        nodes = [StubNode(i, SymDotted(names[i])) for i in range(n_names)]
        graph.new_nodes([nodes[i] for i in perm])
        q = SymDotted(query)
        got = graph.get_nodes_by_name(q)
        member = q in graph.nodes_index
        col.count("lookups")
        got_idx = [n.idx for n in got]
        if len(got_idx) != len(set(got_idx)):
            raise symx.Violation("a node is returned more than once", _cex(eng, names, query, perm, got_idx, -1))
        for i in range(n_names):
            want = contains_formula(names[i], query)
            if i in got_idx:
                if not eng.prove(want, f"returned node {i} contains the query"):
                    raise symx.Violation("lookup returned a node whose name does not contain the query", _cex(eng, names, query, perm, got_idx, i))
            else:
                if not eng.prove(z3.Not(want), f"omitted node {i} does not contain the query"):
                    raise symx.Violation("lookup missed a node whose name contains the query", _cex(eng, names, query, perm, got_idx, i))
        if bool(member) != (len(got_idx) > 0):
            raise symx.Violation("membership disagrees with lookup", _cex(eng, names, query, perm, got_idx, -1))
        # unique lookups: exactly-one or RuntimeError
        try:
            one = graph.get_nodes_by_name(q, unique=True)
            if len(got_idx) != 1 or one.idx != got_idx[0]:
                raise symx.Violation("unique lookup did not raise", _cex(eng, names, query, perm, got_idx, -1))
        except RuntimeError:
            if len(got_idx) == 1:
                raise symx.Violation("unique lookup raised for a unique match", _cex(eng, names, query, perm, got_idx, -1))
        if got_idx:
            col.count("nonempty")
        if len(col.samples) < 3:
            col.samples.append({"names": [[a.label for a in n] for n in names], "query": [a.label + ":" + a.tag for a in query], "insert_order": perm, "result": got_idx})
        return got_idx

    def on_path(eng: symx.Engine, outcome: str, payload: Any) -> None:
        if outcome == "violation":
            col.violations.append((payload.what, "tree", payload.detail))

    def collect() -> Any:
        col.functions = set(common.TRACER.seen)
        return col

    return fn, on_path, collect


def _cex(eng: symx.Engine, names: Any, query: Any, perm: Any, got: Any, node: int) -> dict[str, Any]:
    # node >= 0: a validity query just failed and left its counter-model; otherwise
    # any model of the path condition is a counterexample
    model = eng.last_model if node >= 0 else eng.current_model()

    def val(a: symx.SymAtom) -> str:
        if model is None:
            return a.label
        v = model.eval(a.z, model_completion=True)
        return f"{a.tag[0]}{v}"

    return {
        "names": [[val(a) for a in n] for n in names],
        "query": [val(a) for a in query],
        "insert_order": list(perm),
        "symbolic_result": list(got),
        "node": node,
    }


BOUNDS = {"quick": (3, 3, 2), "thorough": (3, 4, 3)}
_tier = ["quick"]


def _tree_factory():
    return make_tree_harness(*BOUNDS[_tier[0]])


# ---------------------------------------------------------------------------
# edge register


class RNode:
    def __init__(self, atom: symx.SymAtom) -> None:
        self.bridged_form = atom


class RWorker:
    def __init__(self, atom: symx.SymAtom) -> None:
        self.id = atom


def make_register_harness(max_regs: int):
    from avocado_i2n.cartgraph.node import EdgeRegister

    col = common.Collector()

    def fn(eng: symx.Engine) -> Any:
        n = symx.choose(max_regs + 1, "n_regs")
        reg = EdgeRegister()
        regs = []
        for k in range(n):
            node, worker = symx.SymAtom(f"node{k}", "node"), symx.SymAtom(f"worker{k}", "worker")
            regs.append((node, worker))
            reg.register(RNode(node), RWorker(worker))
        qn, qw = symx.SymAtom("qnode", "node"), symx.SymAtom("qworker", "worker")
        mode = eng.pick(4, "query_mode")
        use_node, use_worker = bool(mode & 1), bool(mode & 2)
        got = reg.get_counters(RNode(qn) if use_node else None, RWorker(qw) if use_worker else None)
        terms = []
        for node, worker in regs:
            cond = z3.And(node.z == qn.z if use_node else True, worker.z == qw.z if use_worker else True)
            terms.append(z3.If(cond, 1, 0))
        want = z3.Sum(*terms) if terms else z3.IntVal(0)
        got_z = got.z if isinstance(got, symx.SymInt) else z3.IntVal(got)
        if not eng.prove(want == got_z, "counter equals the number of matching registrations"):
            raise symx.Violation("visit counter differs from the registered visits", _rcex(eng, regs, qn, qw, use_node, use_worker, got))
        workers = reg.get_workers(RNode(qn) if use_node else None)
        wl = list(workers)
        for a, b in itertools.combinations(wl, 2):
            if not eng.prove(a.z != b.z, "workers distinct"):
                raise symx.Violation("a worker is listed twice", _rcex(eng, regs, qn, qw, use_node, use_worker, len(wl)))
        for node, worker in regs:
            match = node.z == qn.z if use_node else z3.BoolVal(True)
            listed = z3.Or(*[worker.z == r.z for r in wl]) if wl else z3.BoolVal(False)
            if not eng.prove(z3.Implies(match, listed), "every visiting worker is listed"):
                raise symx.Violation("a visiting worker is not listed", _rcex(eng, regs, qn, qw, use_node, use_worker, len(wl)))
        for r in wl:
            justified = z3.Or(*[z3.And(node.z == qn.z if use_node else True, worker.z == r.z) for node, worker in regs]) if regs else z3.BoolVal(False)
            if not eng.prove(justified, "every listed worker visited"):
                raise symx.Violation("a worker is listed without a visit", _rcex(eng, regs, qn, qw, use_node, use_worker, len(wl)))
        col.count("register_queries")
        if len(col.samples) < 2:
            col.samples.append({"registrations": n, "query": {"node": use_node, "worker": use_worker}, "counter": str(got), "workers_listed": len(wl)})
        return None

    def on_path(eng: symx.Engine, outcome: str, payload: Any) -> None:
        if outcome == "violation":
            col.violations.append((payload.what, "register", payload.detail))

    def collect() -> Any:
        col.functions = set(common.TRACER.seen)
        return col

    return fn, on_path, collect


def _rcex(eng: symx.Engine, regs: Any, qn: Any, qw: Any, use_node: bool, use_worker: bool, got: Any) -> dict[str, Any]:
    model = eng.last_model

    def val(a: symx.SymAtom) -> Any:
        return model.eval(a.z, model_completion=True).as_long() if model is not None else 0

    return {
        "registrations": [[val(n), val(w)] for n, w in regs],
        "query": [val(qn) if use_node else None, val(qw) if use_worker else None],
        "symbolic_result": str(got),
    }


_regs = [4]


def _register_factory():
    return make_register_harness(_regs[0])


# ---------------------------------------------------------------------------
# replay on the real code with plain strings


def replay(data: dict[str, Any]) -> tuple[bool, str]:
    if "decisions" in data:
        from . import c09

        return c09.replay_bridge(data)
    from avocado_i2n.cartgraph.graph import TestGraph
    from avocado_i2n.cartgraph.node import EdgeRegister

    if "names" in data:
        names = [".".join(n) for n in data["names"]]
        query = ".".join(data["query"])
        graph = TestGraph()
        nodes = [StubNode(i, n) for i, n in enumerate(names)]
        graph.new_nodes([nodes[i] for i in data["insert_order"]])
        got = sorted(n.idx for n in graph.get_nodes_by_name(query))
        qv = data["query"]
        want = sorted(
            i for i, n in enumerate(data["names"])
            if any(n[o:o + len(qv)] == qv for o in range(len(n) - len(qv) + 1))
        )
        member = query in graph.nodes_index
        try:
            graph.get_nodes_by_name(query, unique=True)
            unique_ok = len(want) == 1
        except RuntimeError:
            unique_ok = len(want) != 1
        if got != want or member != bool(want) or not unique_ok:
            return True, f"names={names} query={query}: got {got} member={member} unique_ok={unique_ok}, expected {want}"
        return False, f"names={names} query={query}: got {got} as expected"
    reg = EdgeRegister()

    class N:
        def __init__(self, v: Any) -> None:
            self.bridged_form = f"n{v}"

    class W:
        def __init__(self, v: Any) -> None:
            self.id = f"w{v}"

    for n, w in data["registrations"]:
        reg.register(N(n), W(w))
    qn, qw = data["query"]
    got = reg.get_counters(N(qn) if qn is not None else None, W(qw) if qw is not None else None)
    want = sum(1 for n, w in data["registrations"] if (qn is None or n == qn) and (qw is None or w == qw))
    gw = reg.get_workers(N(qn) if qn is not None else None)
    ww = {f"w{w}" for n, w in data["registrations"] if qn is None or n == qn}
    if got != want or gw != ww:
        return True, f"counter {got} (expected {want}), workers {sorted(gw)} (expected {sorted(ww)})"
    return False, "register agrees with the naive count"


def run(ctx: common.Context) -> None:
    _tier[0] = ctx.tier
    _regs[0] = 5 if ctx.thorough else 4
    mn, ml, mq = BOUNDS[ctx.tier]
    ctx.bounds = {"names": f"1..{mn}", "name_length": f"1..{ml}", "query_length": f"1..{mq}", "registrations": f"0..{_regs[0]}", "alphabet": "unbounded (uninterpreted atoms)"}
    ctx.assumptions = [
        "names are parser-shaped: first variant from a sort disjoint from the others, no variant repeated within a name, names pairwise different (the property's own precondition)",
        "stub nodes expose only params['name'] / bridged_form, stub workers only id (that is all the code under test reads)",
    ]
    deadline = ctx.deadline(150, 1500)
    for name, factory, split in (("prefix_tree", _tree_factory, 5), ("edge_register", _register_factory, 4)):
        exhausted, stats, collected, err = symx.explore_parallel(factory, seed=ctx.seed, split_depth=split, deadline=deadline)
        ctx.add_stats(stats)
        counters = common.merge_collected(ctx, collected)
        ctx.part(name, exhausted=exhausted, paths=stats.paths, counters=counters)
        if err:
            ctx.note_inconclusive(f"{name}: {err}")
        if not exhausted:
            ctx.exhaustive = False
        for c in collected:
            for what, kind, detail in c.violations:
                fp = f"C16 {kind} {what}"
                ctx.report(fp, what, detail, replay)
        if name == "prefix_tree" and counters.get("nonempty", 0) == 0:
            ctx.note_inconclusive("vacuous: no lookup returned a node")
    # visit counters are shared among equivalent tests of different workers: the bridging protocol on real nodes
    from . import c09

    c09._bridge["N"], c09._bridge["regs"] = 3, 2
    exhausted, stats, collected, err = symx.explore_parallel(c09._bridge_factory, seed=ctx.seed, split_depth=3, deadline=ctx.deadline(60, 300), min_tasks=8)
    ctx.add_stats(stats)
    counters = common.merge_collected(ctx, collected)
    ctx.part("shared registers of bridged copies", exhausted=exhausted, paths=stats.paths, counters=counters, bounds={"copies": 3, "visits": 2, "protocols": ["arrival order (parsing)", "all pairs (update tool)"]})
    if err:
        ctx.note_inconclusive(err)
    if not exhausted:
        ctx.exhaustive = False
    for c in collected:
        for what, cls, detail in c.violations:
            ctx.report(cls.replace("C09", "C16"), what, detail, c09.replay_bridge)
    ctx.coverage["explanation"] = (
        "symbolic execution of the real PrefixTree/EdgeRegister on atom-valued names; per path the concrete result is "
        "compared with a z3 formula of the specification by validity queries (unsat of the negation) - valid for an unbounded alphabet within the size bounds"
    )
    if ctx.thorough:
        chrun.run_crosshair(ctx, "ch_c16.py", per_condition_timeout=60)

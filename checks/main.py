"""Dispatcher: ``python -m checks.main <ID> quick|thorough`` / ``<ID> --replay <file>``."""

from __future__ import annotations

import importlib
import json
import logging
import os
import sys
import traceback

from . import common

LEVELS = {
    "C01": "model_checking", "C02": "model_checking", "C03": "model_checking", "C04": "model_checking",
    "C05": "model_checking", "C06": "other", "C08": "model_checking", "C09": "other", "C10": "other",
    "C11": "other", "C12": "other", "C13": "other", "C14": "other", "C15": "model_checking",
    "C16": "other", "C17": "other", "C18": "other", "C19": "other", "C20": "other",
}


def main(argv: list[str]) -> int:
    if len(argv) < 2:
        print("usage: run.sh <ID> quick|thorough | <ID> --replay <file>")
        return common.EXIT_INCONCLUSIVE
    pid = argv[0].upper()
    logging.disable(logging.CRITICAL)
    try:
        mod = importlib.import_module(f"checks.{pid.lower()}")
    except ModuleNotFoundError as e:
        print(f"no check for {pid}: {e}")
        return common.EXIT_INCONCLUSIVE
    if argv[1] == "--replay":
        with open(argv[2]) as f:
            rec = json.load(f)
        ok, msg = mod.replay(rec["data"])
        print(("REPRODUCED: " if ok else "not reproduced: ") + msg)
        if ok:
            print(f"VIOLATION property={pid} replay={argv[2]}")
        return common.EXIT_VIOLATION if ok else common.EXIT_OK
    tier = os.environ.get("VERIF_TIER") or argv[1]
    if tier not in ("quick", "thorough"):
        tier = argv[1]
    seed = int(os.environ.get("VERIF_SEED", "0") or 0)
    ctx = common.Context(pid, tier, seed, LEVELS.get(pid, "other"))
    common.TRACER.start()
    try:
        mod.run(ctx)
    except symx_inconclusive() as inc:
        ctx.note_inconclusive(str(inc))
    except Exception:
        traceback.print_exc()
        ctx.note_inconclusive("harness error: " + traceback.format_exc(limit=3).splitlines()[-1])
    return ctx.finish()


def symx_inconclusive() -> type:
    from engine import symx

    return symx.Inconclusive


if __name__ == "__main__":
    sys.exit(main(sys.argv[1:]))

"""Driver shared by the traversal-based property checks."""

from __future__ import annotations

import os
import time
from typing import Any, Callable

import z3

from engine import symx
from . import common, monitors, trav

_PLAN: dict[str, Any] = {}


class ReplayEngine(symx.Engine):
    """Feeds recorded decisions back, with plain values and no solver."""

    def __init__(self, decisions: list[list[Any]]) -> None:
        super().__init__()
        self.decisions = decisions
        self.i = 0

    def _next(self, label: str, kind: str) -> Any:
        if self.i >= len(self.decisions):
            raise symx.Abort("replay ran past the recorded decisions")
        rec = self.decisions[self.i]
        self.i += 1
        if rec[0] != label or rec[1] != kind:
            raise symx.Abort(f"replay diverged at {self.i}: recorded {rec[0]}/{rec[1]}, got {label}/{kind}")
        return rec[2]

    def assume(self, cond: Any, check: bool = True) -> None:
        return None

    def decide(self, cond: Any, label: str = "", prefer: Any = None) -> bool:
        if isinstance(cond, bool):
            return cond
        if z3.is_true(cond):
            return True
        if z3.is_false(cond):
            return False
        return bool(self._next(label, "bool"))

    def pick(self, n: int, label: str = "") -> int:
        return int(self._next(label, "pick"))

    def concretize(self, expr: Any, label: str = "") -> Any:
        return self._next(label, "enum")

    def prove(self, formula: Any, label: str = "") -> bool:
        raise symx.Abort("validity queries are not replayable without the solver")


def path_fn(plan: dict[str, Any]) -> Callable[[symx.Engine], Any]:
    scenario, config, mons = plan["scenario"], plan["config"], plan["monitors"]

    def fn(eng: symx.Engine) -> Any:
        if isinstance(scenario, trav.ToolScenario):
            run = trav.run_tool(eng, scenario, config)
        else:
            run = trav.prepare(eng, scenario, config)
            if plan.get("setup"):
                plan["setup"](run)
            trav.traverse(run, plan.get("traverse_params"))
        findings = []
        for m in mons:
            findings += m(run)
        summary = {
            "executions": sum(1 for e in run.trace if e["kind"] == "start"),
            "door": sum(1 for e in run.trace if e["kind"] == "door"),
            "steps": run.steps,
            "workers_active": len({e["worker"] for e in run.trace if e["kind"] == "start"}),
            "nonpass": sum(1 for e in run.trace if e["kind"] == "end" and e["status"] != "PASS"),
            "missing": sum(1 for e in run.trace if e["kind"] == "start" and e["missing"]),
            "unsets": sum(1 for e in run.trace if e["kind"] == "door" and e["action"] == "unset"),
            "sample": [f"{e['worker']}:{monitors._short(e['bridged'])}={e.get('status')}" for e in run.trace if e["kind"] == "start"]
            + [f"{e['worker']}:unset:{r[0].split('|')[0]}:{r[1]}" for e in run.trace if e["kind"] == "door" and e["action"] == "unset" for r in e["requests"]],
            "pool": [f"{w}:{o.split('|')[0]}:{s}={v}" for (w, o, s, v) in run.asked],
            "real_agree": run.real_agree, "real_disagree": run.real_disagree,
        }
        if findings:
            raise symx.Violation(findings[0][1], {"findings": findings, "decisions": eng.decisions_vector(), "summary": summary})
        return summary

    return fn


def _factory():
    plan = _PLAN["plan"]
    col = common.Collector()
    fn = path_fn(plan)

    def on_path(eng: symx.Engine, outcome: str, payload: Any) -> None:
        if outcome == "violation":
            d = payload.detail
            for fp, what, detail in d["findings"]:
                if not any(v[0] == fp for v in col.violations):
                    col.violations.append((fp, what, {"decisions": d["decisions"], "detail": detail, "trace": d["summary"]["sample"], "pool": d["summary"]["pool"]}))
            summary = d["summary"]
        elif outcome == "ok":
            summary = payload
        else:
            col.count("pruned")
            return
        col.count("paths")
        col.count("executions", summary["executions"])
        col.count("door_requests", summary["door"])
        col.count("sched_steps", summary["steps"])
        if summary["workers_active"] > 1:
            col.count("paths_multi_worker")
        if summary["nonpass"]:
            col.count("paths_with_failure")
        if summary["missing"]:
            col.count("paths_with_missing_state")
        if summary["unsets"]:
            col.count("paths_with_unset")
        if summary.get("real_agree") or summary.get("real_disagree"):
            col.count("real_layer_agrees_with_model", summary["real_agree"])
            col.count("real_layer_disagrees_with_model", summary["real_disagree"])
        col.states.add(tuple(summary["sample"]) + tuple(summary["pool"]))
        if len(col.samples) < 2 and summary["workers_active"] > 1:
            col.samples.append({"scenario": plan["scenario"].name, "executions": summary["sample"], "pool": summary["pool"]})

    def collect() -> Any:
        col.functions = set(common.TRACER.seen)
        col.counters["distinct_traces"] = len(col.states)
        st = col.states
        col.states = set()
        col.trace_hashes = {hash(x) for x in st}
        return col

    return fn, on_path, collect


def run_plans(ctx: common.Context, plans: list[dict[str, Any]], total_budget_s: float, replay_fn: Callable[[dict[str, Any]], tuple[bool, str]]) -> dict[str, Any]:
    """Explore every plan (scenario x config) within a share of the time budget."""
    t_end = time.time() + total_budget_s
    totals: dict[str, int] = {}
    distinct: set[int] = set()
    for i, plan in enumerate(plans):
        remaining = t_end - time.time()
        share = max(20.0, remaining / (len(plans) - i))
        _PLAN["plan"] = plan
        exhausted, stats, collected, err = symx.explore_parallel(_factory, seed=ctx.seed, split_depth=plan.get("split_depth", 3), deadline=time.time() + share, min_tasks=plan.get("min_tasks", 32))
        ctx.add_stats(stats)
        counters = common.merge_collected(ctx, collected)
        for k, v in counters.items():
            totals[k] = totals.get(k, 0) + v
        for c in collected:
            distinct |= getattr(c, "trace_hashes", set())
        ctx.part(plan["name"], exhausted=exhausted, paths=stats.paths, counters=counters, bounds=plan.get("bounds"))
        if err:
            ctx.note_inconclusive(f"{plan['name']}: {err}")
        if not exhausted:
            ctx.exhaustive = False
        for c in collected:
            for fp, what, detail in c.violations:
                data = {"plan": plan["name"], "fingerprint": fp, **detail}
                ctx.report(fp, what, data, replay_fn)
    totals["distinct_traces_all"] = len(distinct)
    return totals


def make_replay(plans_of: Callable[[str], list[dict[str, Any]]]) -> Callable[[dict[str, Any]], tuple[bool, str]]:
    """Replay = the same real code, driven by the recorded decisions with plain values (no solver)."""

    def replay(data: dict[str, Any]) -> tuple[bool, str]:
        plan = next((p for tier in ("quick", "thorough") for p in plans_of(tier) if p["name"] == data["plan"]), None)
        if plan is None:
            return False, f"unknown plan {data['plan']}"
        eng = ReplayEngine(data["decisions"])
        symx._current = eng
        try:
            path_fn(plan)(eng)
        except symx.Violation as v:
            fps = [f[0] for f in v.detail["findings"]]
            if data["fingerprint"] in fps:
                return True, v.what
            return False, f"replay raised other findings: {fps}"
        except symx.Abort as a:
            return False, f"replay aborted: {a}"
        finally:
            symx._current = None
        return False, "replay passed the monitors"

    return replay


def run_property(ctx: common.Context, plans_of: Callable[[str], list[dict[str, Any]]], replay_fn: Callable[[dict[str, Any]], tuple[bool, str]], quick_s: float = 170, thorough_s: float = 1500) -> None:
    plans = plans_of(ctx.tier)
    only = os.environ.get("VERIF_ONLY_PLAN")  # development aid: explore the plans whose name contains this text
    if only:
        plans = [p for p in plans if only in p["name"]]
        ctx.exhaustive = False
    budget = float(os.environ.get("VERIF_BUDGET_S", 0) or 0) or (quick_s if not ctx.thorough else thorough_s)  # development aid
    totals = run_plans(ctx, plans, budget, replay_fn)
    ctx.bounds = {p["name"]: p["bounds"] for p in plans}
    ctx.assumptions = [
        "graphs: a concrete menu of selections of the shipped sample suite, parsed by the real Cartesian parser (memoised per process)",
        "execution seam TestRunner.run_test_task: one suspension per execution, outcome chosen by the solver; an execution whose required state is absent ends ERROR; PASS/WARN save the test's set_state into the executing worker's own pool; re-creating an object wipes its other states in that pool",
        "state control seam cartgraph.node.door: check/get/unset answered from the store model (own pool per worker + shared pool, initial content = solver variables created at first question)",
        "choice-mode scheduling: any suspended worker may continue at any scheduling point; a worker backing off from an occupied test polls at most K times in a row while nobody else moves; the 10 x 30 s wait for a missing result is atomic",
        "virttest Params.copy/object_params replaced by dict-level equivalents (cross-checked against the originals at run time)",
    ]
    ctx.coverage.update({"states": max(1, totals.get("distinct_traces_all", 0)), "transitions": max(1, totals.get("sched_steps", 0)), "traces_validated_against_impl": totals.get("paths", 0)})
    ctx.coverage["counters"] = totals
    ctx.coverage["explanation"] = "every path is a complete run of the real traversal coroutines; scheduling, outcomes and initial pool contents are solver-chosen (z3 enumerates the feasible values under the budget constraints); 'states' counts distinct (execution history, pool answers) traces"
    if totals.get("paths", 0) > 0 and totals.get("executions", 0) == 0 and not any("dry" in p["name"] for p in plans):
        ctx.note_inconclusive("vacuous: no execution observed")

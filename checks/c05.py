"""C05 - traversal property; plans in trav_plans.py, monitor in monitors.py."""

from __future__ import annotations

from . import common, trav_plans, travcheck

PID = "C05"
plans = trav_plans.PLANS[PID]
replay = travcheck.make_replay(plans)


def run(ctx: common.Context) -> None:
    travcheck.run_property(ctx, plans, replay, quick_s=210)

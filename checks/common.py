"""Shared plumbing of the checks: context, evidence, known findings, replay files."""

from __future__ import annotations

import hashlib
import json
import os
import sys
import time
from typing import Any, Callable

from engine import symx

VERIF = os.path.dirname(os.path.dirname(os.path.abspath(__file__)))
# development aid: mutant runs write their evidence and replay files elsewhere
OUT = os.environ.get("VERIF_OUT", VERIF)
REPO = os.environ.get("VERIF_REPO", "/repo")
EXIT_OK, EXIT_VIOLATION, EXIT_INCONCLUSIVE = 0, 1, 3


class FunctionTracer:
    """Record which functions of /repo/avocado_i2n were executed (sys.monitoring)."""

    TOOL = 4

    def __init__(self) -> None:
        self.seen: set[str] = set()
        self.active = False

    def start(self) -> None:
        mon = sys.monitoring
        try:
            mon.use_tool_id(self.TOOL, "verif")
        except ValueError:
            pass
        prefix = os.path.join(REPO, "avocado_i2n") + os.sep

        def on_start(code: Any, offset: int) -> Any:
            fn = code.co_filename
            if fn.startswith(prefix):
                self.seen.add(fn[len(prefix):-3].replace(os.sep, ".") + ":" + code.co_qualname)
            return mon.DISABLE

        mon.register_callback(self.TOOL, mon.events.PY_START, on_start)
        mon.set_events(self.TOOL, mon.events.PY_START)
        self.active = True

    def stop(self) -> None:
        if self.active:
            sys.monitoring.set_events(self.TOOL, 0)
            self.active = False


TRACER = FunctionTracer()


def load_known_findings() -> list[dict[str, Any]]:
    path = os.path.join(VERIF, "known_findings.json")
    if not os.path.exists(path):
        return []
    with open(path) as f:
        data = json.load(f)
    return data.get("findings", [])


class Context:
    """One run of one property check."""

    def __init__(self, pid: str, tier: str, seed: int, level: str) -> None:
        self.pid = pid
        self.tier = tier
        self.seed = seed
        self.level = level
        self.t0 = time.time()
        self.stats = symx.Stats()
        self.coverage: dict[str, Any] = {}
        self.assumptions: list[str] = []
        self.bounds: dict[str, Any] = {}
        self.samples: list[Any] = []
        self.parts: dict[str, Any] = {}
        self.exhaustive = True
        self.inconclusive: list[str] = []
        self.violations: list[dict[str, Any]] = []
        self.known_hits: list[str] = []
        self.known = [k for k in load_known_findings() if k.get("property") == pid and k.get("status", "open") == "open"]
        self.functions: set[str] = set()
        self.obligations = 0
        self.discharged = 0

    # -- bookkeeping ---------------------------------------------------------
    @property
    def thorough(self) -> bool:
        return self.tier == "thorough"

    def deadline(self, quick_s: float, thorough_s: float) -> float:
        return time.time() + (thorough_s if self.thorough else quick_s)

    def add_stats(self, st: symx.Stats) -> None:
        self.stats.merge(st)

    def part(self, name: str, **info: Any) -> None:
        self.parts[name] = info

    def sample(self, s: Any, limit: int = 6) -> None:
        if len(self.samples) < limit:
            self.samples.append(s)

    def note_inconclusive(self, why: str) -> None:
        self.inconclusive.append(why)

    # -- violations ----------------------------------------------------------
    def report(
        self,
        fingerprint: str,
        what: str,
        data: dict[str, Any],
        replay: Callable[[dict[str, Any]], tuple[bool, str]] | None,
    ) -> None:
        """
        Handle a counterexample found by the solver.

        It is replayed with plain values on the real code first; only a
        reproduced one counts.  A reproduced violation that matches an entry
        of known_findings.json is printed as KNOWN-FINDING, others as VIOLATION.
        """
        for v in self.violations:
            if v["fingerprint"] == fingerprint:
                return
        if fingerprint in self.known_hits:
            return
        if replay is not None:
            try:
                ok, msg = replay(data)
            except Exception as e:  # replay harness broke
                ok, msg = False, f"replay raised {type(e).__name__}: {e}"
            if not ok:
                self.note_inconclusive(f"counterexample did not reproduce on the real code: {what} ({msg})")
                return
        else:
            msg = "not replayable"
        for k in self.known:
            if k["fingerprint"] == fingerprint:
                self.known_hits.append(fingerprint)
                print(f"KNOWN-FINDING: property={self.pid} {k['what']}")
                return
        rdir = os.path.join(OUT, "replays", self.pid)
        os.makedirs(rdir, exist_ok=True)
        h = hashlib.sha1(fingerprint.encode()).hexdigest()[:12]
        path = os.path.join(rdir, f"{h}.json")
        with open(path, "w") as f:
            json.dump({"property": self.pid, "fingerprint": fingerprint, "what": what, "data": data, "replay_said": msg}, f, indent=1, default=str)
        self.violations.append({"fingerprint": fingerprint, "what": what, "replay": path})
        print(f"VIOLATION property={self.pid} replay={path}")
        print(f"  {what}")

    # -- the end -------------------------------------------------------------
    def finish(self) -> int:
        TRACER.stop()
        self.functions |= TRACER.seen
        wall = time.time() - self.t0
        cov: dict[str, Any] = dict(self.coverage)
        st = self.stats.as_dict()
        cov.setdefault("evaluations", max(1, st["paths"]))
        cov.setdefault("distinct_nontrivial", max(0, st["paths"] - st["aborted"]))
        cov.setdefault("rule", "one evaluation = one explored path of the real code on symbolic inputs (a set of concrete inputs); non-trivial = the path reached the property monitor (not pruned by an assumption)")
        cov["samples"] = self.samples or cov.get("samples") or ["(no sample recorded)"]
        cov["exhaustive"] = bool(self.exhaustive and not self.inconclusive)
        cov["obligations"] = self.obligations + st["proved"] + st["prove_failed"]
        cov["discharged"] = self.discharged + st["proved"]
        cov["solver"] = {k: st[k] for k in ("solver_calls", "checks_sat", "checks_unsat", "checks_unknown", "solver_s", "decisions", "forks", "max_depth")}
        cov["paths"] = st["paths"]
        cov["paths_pruned"] = st["aborted"]
        cov["bounds"] = self.bounds
        cov["functions_executed"] = sorted(self.functions)
        cov["parts"] = self.parts
        cov["trusted_base"] = cov.get("trusted_base", ["engine/symx.py (proxies, DFS)", "z3 5.1.0"])
        cov.setdefault("explanation", "bounded symbolic execution of the real functions with z3 deciding every branch and every final validity query")
        if self.inconclusive:
            cov["inconclusive"] = self.inconclusive[:20]
        if self.known_hits:
            cov["known_findings_hit"] = self.known_hits
        if self.level == "model_checking":
            cov.setdefault("states", 1)
            cov.setdefault("transitions", 1)
            cov.setdefault("traces_validated_against_impl", st["paths"])
        ev = {
            "property_id": self.pid,
            "tier": self.tier,
            "seed": self.seed,
            "level": self.level,
            "coverage": cov,
            "assumptions": self.assumptions,
            "wall_s": round(wall, 2),
            "violations": len(self.violations),
        }
        os.makedirs(os.path.join(OUT, "evidence"), exist_ok=True)
        with open(os.path.join(OUT, "evidence", f"{self.pid}.json"), "w") as f:
            json.dump(ev, f, indent=1, default=str)
        tag = "exhaustive" if cov["exhaustive"] else "NOT exhaustive"
        print(
            f"[{self.pid} {self.tier}] paths={st['paths']} pruned={st['aborted']} obligations={cov['obligations']} "
            f"discharged={cov['discharged']} solver_calls={st['solver_calls']} solver_s={st['solver_s']} "
            f"wall={wall:.1f}s {tag}"
        )
        if self.violations:
            return EXIT_VIOLATION
        if self.inconclusive:
            for w in self.inconclusive[:10]:
                print(f"INCONCLUSIVE: {w}")
            return EXIT_INCONCLUSIVE
        return EXIT_OK


class Collector:
    """Picklable per-task result of a parallel exploration."""

    def __init__(self) -> None:
        self.violations: list[tuple[str, str, dict[str, Any]]] = []
        self.samples: list[Any] = []
        self.counters: dict[str, int] = {}
        self.functions: set[str] = set()
        self.states: set[Any] = set()

    def count(self, key: str, n: int = 1) -> None:
        self.counters[key] = self.counters.get(key, 0) + n


def merge_collected(ctx: Context, collected: list[Any]) -> dict[str, int]:
    counters: dict[str, int] = {}
    for c in collected:
        if c is None:
            continue
        for k, v in c.counters.items():
            counters[k] = counters.get(k, 0) + v
        ctx.functions |= c.functions
        for s in c.samples:
            ctx.sample(s)
    return counters


def explore_serial(
    ctx: Context,
    fn: Callable[[symx.Engine], Any],
    on_path: Callable[[symx.Engine, str, Any], None] | None = None,
    max_paths: int | None = None,
    deadline: float | None = None,
    seed_offset: int = 0,
) -> bool:
    eng = symx.Engine(seed=ctx.seed + seed_offset)
    try:
        exhausted = eng.explore(fn, on_path=on_path, max_paths=max_paths, deadline=deadline)
    except symx.Inconclusive as inc:
        ctx.note_inconclusive(str(inc))
        exhausted = False
    ctx.add_stats(eng.stats)
    if not exhausted:
        ctx.exhaustive = False
    return exhausted

"""
C13 - pool access respects the enabled scopes and prefers the closest source.

Real code: ``SourcedStateBackend.show/get/set/unset`` with ``get_sources`` and
``get_source_scope``, ``RootSourcedStateBackend.check_root/get_root/set_root/
unset_root``.  The transport and the local ``_show/_get/_set/_unset`` are logging stubs
(the substitution points the classes provide).  Gateways and hosts of the own worker and
of every source are uninterpreted atoms (the real comparisons fork on their equality),
presence of the state locally / per source and cache validity are solver variables,
``pool_scope`` ranges over all 16 subsets, source lists over a menu of paths.
"""

from __future__ import annotations

import itertools
from typing import Any

import z3

from engine import symx
from . import chrun, common

SHARED, SWARM, OTHER = "/mnt/shared", "/mnt/swarm", "/mnt/elsewhere"
PATHS = [SHARED, SWARM, OTHER]
SCOPES = ["own", "swarm", "cluster", "shared"]
_cfg = {"max_sources": 2}


class Log:
    def __init__(self) -> None:
        self.calls: list[tuple[str, str]] = []


def make_classes(eng: symx.Engine, log: Log, present: dict[str, Any], cache_valid: Any):
    from avocado_i2n.states.pool import RootSourcedStateBackend, SourcedStateBackend

    class Transport:
        ops = None

        @classmethod
        def show(cls, params: Any, object: Any = None) -> list[str]:
            src = params["show_location"]
            log.calls.append(("transport.show", src))
            return ["s1"] if present[src] else []

        @classmethod
        def get(cls, params: Any, object: Any = None) -> None:
            log.calls.append(("transport.get", params["get_location"]))

        @classmethod
        def set(cls, params: Any, object: Any = None) -> None:
            log.calls.append(("transport.set", params["set_location"]))

        @classmethod
        def unset(cls, params: Any, object: Any = None) -> None:
            log.calls.append(("transport.unset", params["unset_location"]))

        @classmethod
        def compare_chain(cls, state: str, cache_dir: str, pool_dir: str, params: Any) -> bool:
            log.calls.append(("transport.compare", pool_dir))
            return bool(cache_valid)

    class Backend(SourcedStateBackend):
        transport = Transport

        @classmethod
        def _show(cls, params: Any, object: Any = None) -> list[str]:
            log.calls.append(("_show", ""))
            return ["s1"] if present["<local>"] else []

        @classmethod
        def _get(cls, params: Any, object: Any = None) -> None:
            log.calls.append(("_get", ""))

        @classmethod
        def _set(cls, params: Any, object: Any = None) -> None:
            log.calls.append(("_set", ""))

        @classmethod
        def _unset(cls, params: Any, object: Any = None) -> None:
            log.calls.append(("_unset", ""))

    return Backend, Transport


class LazyBits(dict):
    """presence per location: a solver variable created at first question."""

    def __missing__(self, key: str) -> bool:
        v = bool(symx.SymBool(name=f"present:{key}"))
        self[key] = v
        return v


def build_params(eng: symx.Engine, n_sources: int, scopes: list[str], op: str):
    from virttest.utils_params import Params

    params = Params()
    params["pool_scope"] = " ".join(scopes)
    params["shared_pool"] = SHARED
    params["swarm_pool"] = SWARM
    params["nets_gateway"] = symx.SymAtom("gw_own", "gw")
    params["nets_host"] = symx.SymAtom("host_own", "host")
    params[f"{op}_state"] = "s1"
    params["object_type"] = "nets/vms/images"
    sources = []
    for i in range(n_sources):
        shared_like = eng.pick(2, f"source{i}_kind") == 0
        path = PATHS[eng.pick(3, f"source{i}_path")]
        if shared_like:
            sources.append(f":{path}")
        else:
            net = f"net{i + 7}"
            sources.append(f"{net}:{path}")
            params[f"nets_gateway_{net}"] = symx.SymAtom(f"gw_{net}", "gw")
            params[f"nets_host_{net}"] = symx.SymAtom(f"host_{net}", "host")
    # distinct source strings (a location list names each pool once)
    if len(set(sources)) != len(sources):
        raise symx.Abort("duplicate source")
    do_loc = "show" if op == "show" else op
    params[f"{do_loc}_location"] = " ".join(sources)
    return params, sources


def classify(params: Any, source: str) -> tuple[str, tuple[int, int, int]]:
    """Documented scope of a source and its proximity key, from the already decided equalities."""
    net, path = source.split(":")
    sp = params.object_params(net) if net else params
    same_gw = bool(params["nets_gateway"] == sp["nets_gateway"]) if net else True
    same_host = bool(params["nets_host"] == sp["nets_host"]) if net else True
    if not same_gw:
        scope = "cluster"
    elif not same_host:
        scope = "swarm"
    elif path == SHARED:
        scope = "shared"
    elif path == SWARM:
        scope = "own"
    else:
        scope = "shared"
    return scope, (int(same_gw), int(same_host), int(path == SWARM))


def _factory():
    col = common.Collector()

    def fn(eng: symx.Engine) -> Any:
        op = ("show", "get", "set", "unset")[eng.pick(4, "op")]
        mask = eng.pick(16, "pool_scope")
        scopes = [s for i, s in enumerate(SCOPES) if mask & (1 << i)]
        n_sources = symx.choose(_cfg["max_sources"] + 1, "n_sources")
        params, sources = build_params(eng, n_sources, scopes, op)
        log = Log()
        present = LazyBits()
        cache_valid = symx.SymBool(name="cache_valid")
        Backend, _T = make_classes(eng, log, present, cache_valid)
        raised = None
        result = None
        try:
            result = getattr(Backend, op)(params, None)
        except RuntimeError as e:
            raised = e
        col.count("operations")
        info = [classify(params, s) for s in sources]
        permitted = [s for s, (scope, _k) in zip(sources, info) if scope != "own" and scope in scopes]
        desc = {"op": op, "pool_scope": scopes, "sources": sources, "classes": [i[0] for i in info], "proximity": [i[1] for i in info], "present": dict(present), "calls": list(log.calls)}
        contacted = [c[1] for c in log.calls if c[0].startswith("transport.")]
        # only permitted sources are ever contacted
        for c in contacted:
            if c not in permitted:
                raise symx.Violation(f"{op} contacted {c} whose scope is not enabled", {"case": desc, "class": f"{op} contacts disabled scope"})
        local_calls = [c[0] for c in log.calls if c[0].startswith("_")]
        if op == "show":
            want_local = ["_show"] if "own" in scopes else []
            if local_calls != want_local:
                raise symx.Violation("show: local listing does not follow the own scope", {"case": desc, "class": "show local"})
            # (only permitted sources may be listed - checked above; the property does not demand that all of them are)
            reported = "s1" in result
            somewhere = ("own" in scopes and present["<local>"]) or any(present[s] for s in permitted)
            if reported and not somewhere:
                raise symx.Violation("show reports a state that is neither local nor in a permitted source", {"case": desc, "class": "show reports absent"})
            if "own" in scopes and present["<local>"] and not reported:
                raise symx.Violation("show omits a locally cached state", {"case": desc, "class": "show omits local"})
            if reported:
                col.count("reported")
        elif op == "get":
            # closest permitted source: highest proximity, ties by position
            best = None
            for s, (scope, key) in zip(sources, info):
                if s in permitted and (best is None or key > best[1]):
                    best = (s, key)
            used = [c[1] for c in log.calls if c[0] == "transport.show"]
            if best is None:
                if contacted:
                    raise symx.Violation("get contacted a source although none is permitted", {"case": desc, "class": "get contacts"})
            else:
                if used != [best[0]]:
                    raise symx.Violation(f"get consulted {used}, the closest permitted source is {best[0]}", {"case": desc, "class": "get closest source"})
                downloaded = [c[1] for c in log.calls if c[0] == "transport.get"]
                need = present[best[0]] and (not present["<local>"] or not bool(cache_valid))
                if need and downloaded != [best[0]]:
                    raise symx.Violation("get did not download a missing / outdated state from the closest source", {"case": desc, "class": "get download missing"})
                if not need and downloaded:
                    raise symx.Violation("get downloaded although the local copy matches (or the source lacks the state)", {"case": desc, "class": "get spurious download"})
                col.count("get_with_source")
            if ("_get" in local_calls) != ("own" in scopes):
                raise symx.Violation("get: local retrieval does not follow the own scope", {"case": desc, "class": "get local"})
        elif op == "set":
            if "own" not in scopes and not present["<local>"]:
                if raised is None:
                    raise symx.Violation("updating a pool without the local state was not refused", {"case": desc, "class": "set without local state"})
                col.count("refused")
                return None
            if raised is not None:
                raise symx.Violation(f"set raised {raised}", {"case": desc, "class": "set raised"})
            if ("_set" in local_calls) != ("own" in scopes):
                raise symx.Violation("set: local save does not follow the own scope", {"case": desc, "class": "set local"})
            ups = [c[1] for c in log.calls if c[0] == "transport.set"]
            if sorted(ups) != sorted(permitted):
                raise symx.Violation(f"set reached {ups}, permitted mirrors are {permitted}", {"case": desc, "class": "set mirrors"})
        else:
            if ("_unset" in local_calls) != ("own" in scopes):
                raise symx.Violation("unset: local removal does not follow the own scope", {"case": desc, "class": "unset local"})
            downs = [c[1] for c in log.calls if c[0] == "transport.unset"]
            if sorted(downs) != sorted(permitted):
                raise symx.Violation(f"unset reached {downs}, permitted mirrors are {permitted}", {"case": desc, "class": "unset mirrors"})
        if permitted:
            col.count("with_permitted_source")
        if len(col.samples) < 3 and len(sources) == 2 and permitted:
            col.samples.append({k: desc[k] for k in ("op", "pool_scope", "sources", "classes", "calls")})
        return None

    def on_path(eng: symx.Engine, outcome: str, payload: Any) -> None:
        if outcome == "violation":
            col.violations.append((payload.what, payload.detail["class"], payload.detail))

    def collect() -> Any:
        col.functions = set(common.TRACER.seen)
        return col

    return fn, on_path, collect


def _root_factory():
    col = common.Collector()

    def fn(eng: symx.Engine) -> Any:
        from avocado_i2n.states.pool import RootSourcedStateBackend
        from virttest.utils_params import Params

        log = Log()
        local = symx.SymBool(name="local_root")
        pool = symx.SymBool(name="pool_root")
        same = symx.SymBool(name="image_matches_pool")

        class Ops:
            @staticmethod
            def compare(cache: str, poolp: str, params: Any) -> bool:
                log.calls.append(("compare", poolp))
                return bool(same)

        class Transport:
            ops = Ops

            @classmethod
            def check_root(cls, params: Any, object: Any = None) -> bool:
                log.calls.append(("t.check_root", ""))
                return bool(pool)

            @classmethod
            def get_root(cls, params: Any, object: Any = None) -> None:
                log.calls.append(("t.get_root", ""))

            @classmethod
            def set_root(cls, params: Any, object: Any = None) -> None:
                log.calls.append(("t.set_root", ""))

            @classmethod
            def unset_root(cls, params: Any, object: Any = None) -> None:
                log.calls.append(("t.unset_root", ""))

        class Backend(RootSourcedStateBackend):
            transport = Transport

            @classmethod
            def _check_root(cls, params: Any, object: Any = None) -> bool:
                log.calls.append(("_check_root", ""))
                return bool(local)

            @classmethod
            def _get_root(cls, params: Any, object: Any = None) -> None:
                log.calls.append(("_get_root", ""))

            @classmethod
            def _set_root(cls, params: Any, object: Any = None) -> None:
                log.calls.append(("_set_root", ""))

            @classmethod
            def _unset_root(cls, params: Any, object: Any = None) -> None:
                log.calls.append(("_unset_root", ""))

        op = ("check_root", "get_root", "set_root", "unset_root")[eng.pick(4, "root_op")]
        scope = ["own", "shared", "own shared", "own swarm cluster shared", "swarm shared"][eng.pick(5, "root_scope")]
        otype = ["nets/vms/images", "nets/vms"][eng.pick(2, "object_type")]
        params = Params({"pool_scope": scope, "object_type": otype, "vms": "vm1", "images": "image1", "image_name": "image", "vms_base_dir": "/images", "shared_pool": SHARED})
        raised, result = None, None
        try:
            result = getattr(Backend, op)(params, None)
        except RuntimeError as e:
            raised = e
        calls = [c[0] for c in log.calls]
        desc = {"op": op, "pool_scope": scope, "object_type": otype, "calls": calls}
        col.count("root_operations")
        pool_calls = [c for c in calls if c.startswith("t.") or c == "compare"]
        if scope == "own" and pool_calls:
            raise symx.Violation(f"{op} contacted the shared pool although only the own scope is enabled", {"case": desc, "class": f"root {op} own-only contacts pool"})
        if op == "check_root":
            want = bool(local) if scope == "own" else (bool(local) or (bool(pool) and otype != "nets/vms"))
            if bool(result) != want:
                raise symx.Violation(f"check_root returned {result}, expected {want}", {"case": desc, "class": "root check result"})
        elif op == "get_root":
            if "own" not in scope.split():
                if calls != ["t.get_root"]:
                    raise symx.Violation("get_root without own scope must only download", {"case": desc, "class": "root get without own"})
            elif scope != "own":
                need = bool(pool) and (not bool(local) or not bool(same))
                if need != ("t.get_root" in calls):
                    raise symx.Violation(f"get_root download decision wrong (needed={need})", {"case": desc, "class": "root get download"})
                if "_get_root" not in calls:
                    raise symx.Violation("get_root did not provide the local root", {"case": desc, "class": "root get local"})
        elif op == "set_root":
            if scope == "own":
                if calls != ["_set_root"]:
                    raise symx.Violation("set_root own", {"case": desc, "class": "root set own"})
            elif scope == "shared":
                if not bool(local):
                    if raised is None:
                        raise symx.Violation("updating the pool root without a local root was not refused", {"case": desc, "class": "root set without local"})
                    col.count("refused")
                elif "t.set_root" not in calls or raised is not None:
                    raise symx.Violation("set_root shared did not upload", {"case": desc, "class": "root set shared"})
            elif raised is None:
                raise symx.Violation("set_root accepted an ambiguous pool scope", {"case": desc, "class": "root set ambiguous"})
        else:
            if scope == "own" and calls != ["_unset_root"]:
                raise symx.Violation("unset_root own", {"case": desc, "class": "root unset own"})
            if scope == "shared" and calls != ["t.unset_root"]:
                raise symx.Violation("unset_root shared", {"case": desc, "class": "root unset shared"})
            if scope not in ("own", "shared") and raised is None:
                raise symx.Violation("unset_root accepted an ambiguous pool scope", {"case": desc, "class": "root unset ambiguous"})
        return None

    def on_path(eng: symx.Engine, outcome: str, payload: Any) -> None:
        if outcome == "violation":
            col.violations.append((payload.what, payload.detail["class"], payload.detail))

    def collect() -> Any:
        col.functions = set(common.TRACER.seen)
        return col

    return fn, on_path, collect


CHAIN = ["s1", "s0", "base"]
CACHE_DIR, POOL_DIR = "/mnt/swarm", "/mnt/shared"
OBJ_TYPES = ["nets/vms/images", "nets/vms", "vms", "images"]


def chain_files(obj_type: str, images: list[str], depth: int) -> list[str]:
    """the files a cached state consists of (relative to a pool directory), from the documented layout"""
    files = [f"vmid1/{img}/{st}.qcow2" for st in CHAIN[:depth] for img in images]
    if obj_type in ("vms", "nets/vms"):
        files.append("vmid1/s1.state")
    return files


def chain_classes(eq: Any, log: list[tuple[str, str, str]], depth: int):
    from avocado_i2n.states.pool import QCOW2ImageTransfer

    class Ops:
        @staticmethod
        def compare(cache_path: str, pool_path: str, params: Any) -> bool:
            log.append(("compare", cache_path, pool_path))
            return bool(eq[pool_path[len(POOL_DIR) + 1:]]) if pool_path.startswith(POOL_DIR + "/") else False

        @staticmethod
        def download(cache_path: str, pool_path: str, params: Any) -> None:
            log.append(("download", cache_path, pool_path))

        @staticmethod
        def upload(cache_path: str, pool_path: str, params: Any) -> None:
            log.append(("upload", cache_path, pool_path))

    class Transfer(QCOW2ImageTransfer):
        ops = Ops

        @classmethod
        def get_dependency(cls, state: str, params: Any) -> str:
            i = CHAIN.index(state)
            return CHAIN[i + 1] if i + 1 < depth else ""

    return Transfer


def chain_params(obj_type: str, images: list[str]):
    from virttest.utils_params import Params

    return Params({"object_id": "vmid1", "vms": "vm1", "images": " ".join(images), "object_type": obj_type, "swarm_pool": CACHE_DIR})


def chain_judge(op: str, obj_type: str, images: list[str], depth: int, log: list[tuple[str, str, str]], result: Any, eq: Any) -> str | None:
    files = chain_files(obj_type, images, depth)
    want_op = "compare" if op == "compare" else ("download" if op == "down" else "upload")
    for kind, cpath, ppath in log:
        if kind != want_op:
            return f"{op}: unexpected operation {kind} on {cpath}"
        if not (cpath.startswith(CACHE_DIR + "/") and ppath.startswith(POOL_DIR + "/")) or cpath[len(CACHE_DIR):] != ppath[len(POOL_DIR):]:
            return f"{op}: cache path {cpath} and pool path {ppath} are not the same file of the state"
        if ppath[len(POOL_DIR) + 1:] not in files:
            return f"{op}: {ppath} is not a file of the state ({files})"
    touched = [p[len(POOL_DIR) + 1:] for _k, _c, p in log]
    if op == "compare":
        expected = all(bool(eq[f]) for f in files)
        if bool(result) != expected:
            return f"compare_chain answered {bool(result)} but the files of the state {files} are {'all equal' if expected else 'not all equal'} (compared only {touched})"
    else:
        if sorted(touched) != sorted(files):
            return f"transfer_chain({op}) moved {touched}, the state consists of {files}"
    return None


def _chain_factory():
    col = common.Collector()

    def fn(eng: symx.Engine) -> Any:
        op = ("compare", "down", "up")[eng.pick(3, "chain_op")]
        obj_type = OBJ_TYPES[eng.pick(len(OBJ_TYPES), "object_type")]
        images = ["image1", "image2"][: 1 + eng.pick(2, "n_images")]
        depth = 1 + eng.pick(len(CHAIN), "chain_depth")
        eq = LazyBits()
        log: list[tuple[str, str, str]] = []
        Transfer = chain_classes(eq, log, depth)
        params = chain_params(obj_type, images)
        if op == "compare":
            result = Transfer.compare_chain("s1", CACHE_DIR, POOL_DIR, params)
        else:
            result = Transfer.transfer_chain("s1", CACHE_DIR, POOL_DIR, params, down=(op == "down"))
        verdict = chain_judge(op, obj_type, images, depth, log, result, eq)
        col.count("chains")
        if op == "compare" and not result:
            col.count("chains_invalid_cache")
        if verdict:
            desc = {"chain": True, "op": op, "object_type": obj_type, "images": images, "depth": depth, "equal": {k: bool(v) for k, v in eq.items()}}
            raise symx.Violation(verdict, {"case": desc, "class": f"chain {op} {obj_type} depth {depth} images {len(images)}"})
        return None

    def on_path(eng: symx.Engine, outcome: str, payload: Any) -> None:
        if outcome == "violation":
            col.violations.append((payload.what, payload.detail["class"], payload.detail))

    def collect() -> Any:
        col.functions = set(common.TRACER.seen)
        return col

    return fn, on_path, collect


def replay_chain(data: dict[str, Any]) -> tuple[bool, str]:
    """Concrete re-run of the real compare_chain/transfer_chain with the recorded file equalities."""
    case = data["case"]
    eq = {f: case["equal"].get(f, True) for f in chain_files(case["object_type"], case["images"], case["depth"])}
    eq.update(case["equal"])
    log: list[tuple[str, str, str]] = []
    Transfer = chain_classes(eq, log, case["depth"])
    params = chain_params(case["object_type"], case["images"])
    if case["op"] == "compare":
        result = Transfer.compare_chain("s1", CACHE_DIR, POOL_DIR, params)
    else:
        result = Transfer.transfer_chain("s1", CACHE_DIR, POOL_DIR, params, down=(case["op"] == "down"))
    verdict = chain_judge(case["op"], case["object_type"], case["images"], case["depth"], log, result, eq)
    return (verdict is not None), (verdict or f"result={result} log={log}")


def replay(data: dict[str, Any]) -> tuple[bool, str]:
    """Concrete re-run with plain strings for gateways/hosts realising the recorded classes."""
    from avocado_i2n.states.pool import SourcedStateBackend
    from virttest.utils_params import Params

    case = data["case"]
    if "sources" not in case:
        return False, "root cases are replayed by re-running the check"
    op, scopes, sources = case["op"], case["pool_scope"], case["sources"]
    params = Params({"pool_scope": " ".join(scopes), "shared_pool": SHARED, "swarm_pool": SWARM, "nets_gateway": "gw0", "nets_host": "h0", f"{op}_state": "s1", "object_type": "nets/vms/images"})
    for s, (gw, host, _p) in zip(sources, case["proximity"]):
        net = s.split(":")[0]
        if net:
            params[f"nets_gateway_{net}"] = "gw0" if gw else f"gw_{net}"
            params[f"nets_host_{net}"] = "h0" if host else f"h_{net}"
    params[f"{op}_location"] = " ".join(sources)
    calls: list[tuple[str, str]] = []
    present = case["present"]

    class T:
        @classmethod
        def show(cls, p: Any, object: Any = None) -> list[str]:
            calls.append(("transport.show", p["show_location"]))
            return ["s1"] if present.get(p["show_location"]) else []

        @classmethod
        def get(cls, p: Any, object: Any = None) -> None:
            calls.append(("transport.get", p["get_location"]))

        @classmethod
        def set(cls, p: Any, object: Any = None) -> None:
            calls.append(("transport.set", p["set_location"]))

        @classmethod
        def unset(cls, p: Any, object: Any = None) -> None:
            calls.append(("transport.unset", p["unset_location"]))

        @classmethod
        def compare_chain(cls, *a: Any) -> bool:
            return True

    class B(SourcedStateBackend):
        transport = T

        @classmethod
        def _show(cls, p: Any, object: Any = None) -> list[str]:
            calls.append(("_show", ""))
            return ["s1"] if present.get("<local>") else []

        @classmethod
        def _get(cls, p: Any, object: Any = None) -> None:
            calls.append(("_get", ""))

        @classmethod
        def _set(cls, p: Any, object: Any = None) -> None:
            calls.append(("_set", ""))

        @classmethod
        def _unset(cls, p: Any, object: Any = None) -> None:
            calls.append(("_unset", ""))

    try:
        getattr(B, op)(params, None)
        raised = None
    except RuntimeError as e:
        raised = e
    permitted = [s for s, c in zip(sources, case["classes"]) if c != "own" and c in scopes]
    contacted = [c[1] for c in calls if c[0].startswith("transport.")]
    bad = [c for c in contacted if c not in permitted]
    msg = f"calls={calls} permitted={permitted} raised={raised}"
    if bad:
        return True, "contacted a source of a disabled scope: " + msg
    if op in ("set", "unset") and raised is None and sorted(c[1] for c in calls if c[0] == f"transport.{op}") != sorted(permitted):
        return True, "mirrors not all reached: " + msg
    if op == "get":
        best = None
        for s, key in zip(sources, case["proximity"]):
            if s in permitted and (best is None or tuple(key) > tuple(best[1])):
                best = (s, key)
        used = [c[1] for c in calls if c[0] == "transport.show"]
        if (best is None and contacted) or (best is not None and used != [best[0]]):
            return True, f"closest permitted source {best} not used: " + msg
    if op == "set" and "own" not in scopes and not present.get("<local>") and raised is None:
        return True, "not refused: " + msg
    return False, msg


def run(ctx: common.Context) -> None:
    _cfg["max_sources"] = 3 if ctx.thorough else 2
    for name, factory in (("sourced states", _factory), ("root states", _root_factory), ("cache validation chain", _chain_factory)):
        exhausted, stats, collected, err = symx.explore_parallel(factory, seed=ctx.seed, split_depth=4, deadline=ctx.deadline(120, 900))
        ctx.add_stats(stats)
        counters = common.merge_collected(ctx, collected)
        ctx.part(name, exhausted=exhausted, paths=stats.paths, counters=counters)
        if err:
            ctx.note_inconclusive(err)
        if not exhausted:
            ctx.exhaustive = False
        for c in collected:
            for what, cls, detail in c.violations:
                ctx.report(f"C13 {cls}", what + f" [{ {k: v for k, v in detail['case'].items() if k in ('op', 'pool_scope', 'sources', 'classes', 'object_type')} }]", detail, replay if "sources" in detail["case"] else (replay_chain if "chain" in detail["case"] else None))
        if name == "cache validation chain" and (counters.get("chains", 0) == 0 or counters.get("chains_invalid_cache", 0) == 0):
            ctx.note_inconclusive("vacuous: no chain comparison with a differing file explored")
        if name == "sourced states" and (counters.get("with_permitted_source", 0) == 0 or counters.get("refused", 0) == 0):
            ctx.note_inconclusive("vacuous: no permitted source contacted or no refusal explored")
    ctx.bounds = {"pool_scope": "all 16 subsets", "sources": f"0..{_cfg['max_sources']}, each ':path' or 'net:path' with path in shared_pool/swarm_pool/other", "gateways/hosts": "uninterpreted atoms (equality with the own worker symbolic)", "presence": "local and per source symbolic", "cache_valid": "symbolic in the sourced part; cache validation chain: real compare_chain/transfer_chain over object types nets/vms/images, nets/vms, vms, images x 1..2 images x backing chains of 1..3 states, equality of every file of the state symbolic", "root": "4 operations x 5 scope settings x 2 object types, local/pool root and image comparison symbolic"}
    ctx.assumptions = ["transport (QCOW2ImageTransfer) and the local _show/_get/_set/_unset are logging stubs substituted through the class attributes (sourced part); in the chain part QCOW2ImageTransfer.compare_chain/transfer_chain are the real code, TransferOps.compare/download/upload are logging stubs with symbolic answers and get_dependency (qemu-img info) is a stub walking a fixed chain s1 -> s0 -> base", "a cached state consists of <vm id>/<image>/<state>.qcow2 for every image and every state of its backing chain, plus <vm id>/<state>.state for vm states (documented pool layout)", "closeness = (same gateway, same host, swarm_pool path), ties by list position"]
    ctx.coverage["explanation"] = "symbolic execution of the real pool backends: the real comparisons of gateways/hosts fork on atom equality, presence and cache validity are solver variables, all scope subsets enumerated; oracle = documented scope classification and closest-permitted-source rule"
    if True:
        chrun.run_crosshair(ctx, "ch_c13.py", per_condition_timeout=40)

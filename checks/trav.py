"""
The traversal harness shared by C01-C05, C08-C10, C15, C20.

One *path* = one complete run of the real ``TestGraph.traverse_object_trees``
coroutines of all workers on a freshly parsed graph, with
  - the scheduling decisions,
  - the outcome of every execution (8 statuses + "never reported"),
  - the initial content of the state pools (own pool per worker, shared pool)
chosen by the solver (symx).  The seams are the ones the selftests mock:
``TestRunner.run_test_task`` and ``cartgraph.node.door``; time is
``engine.vsched``.  Everything a monitor needs is recorded in ``Run.trace``.
"""

from __future__ import annotations

import copy
import os
import re
from typing import Any, Callable

import z3

from engine import symx, vsched

STATUSES = ["PASS", "FAIL", "ERROR", "WARN", "SKIP", "CANCEL", "INTERRUPTED", "NONE"]
SAVING = {"PASS", "WARN"}  # statuses after which the test's set_state was saved
OK_STATUSES = {"PASS", "WARN", "SKIP", "CANCEL"}

_installed = False
CUR: "Run | None" = None
_memo_parser: dict[Any, Any] = {}
_memo_params: dict[Any, Any] = {}


# ---------------------------------------------------------------------------
# seams


class _MockID:
    def __init__(self, uid: str, name: str) -> None:
        self.uid = uid
        self.name = name


class _Session:
    def __init__(self, host: Any = None, port: Any = None) -> None:
        self.host, self.port = host, port

    def cmd_output(self, *a: Any, **k: Any) -> str:
        return ""

    def close(self) -> None:
        pass


class _MemoParser:
    def __init__(self, dicts: list[dict[str, Any]]) -> None:
        self._dicts = dicts

    def get_dicts(self) -> Any:
        for d in self._dicts:
            yield _copy_dict(d)


def _copy_dict(d: dict[str, Any]) -> dict[str, Any]:
    out = dict(d)
    for k in ("_name_map_file", "_short_name_map_file"):
        if k in out:
            out[k] = dict(out[k])
    if "dep" in out:
        out["dep"] = list(out["dep"])
    return out


def _steps_key(rep: Any) -> Any:
    return tuple((type(s).__name__, s.parsable_form()) for s in rep.steps)


def install() -> None:
    """Apply the seams (idempotent, once per process)."""
    global _installed
    if _installed:
        return
    _installed = True
    from avocado_i2n import params_parser
    from avocado_i2n.cartgraph import graph as graph_mod
    from avocado_i2n.cartgraph import node as node_mod
    from avocado_i2n.cartgraph import worker as worker_mod
    from avocado_i2n.plugins import runner as runner_mod
    from virttest.utils_params import Params

    graph_mod.asyncio = vsched.SHIM
    runner_mod.asyncio = vsched.SHIM
    runner_mod.TestRunner.run_test_task = _run_test_task
    node_mod.door = DoorShim
    worker_mod.remote.wait_for_login = lambda client=None, host=None, port=None, *a, **k: _Session(host, port)

    # observer of the visit bookkeeping: every recorded visit is remembered together with the register it went into
    real_register = node_mod.EdgeRegister.register

    def register(self: Any, node: Any, worker: Any) -> None:
        real_register(self, node, worker)
        if CUR is not None:
            CUR.visits.append((self, node.bridged_form, worker.id))

    node_mod.EdgeRegister.register = register

    real_get_parser = params_parser.Reparsable.get_parser
    real_get_params = params_parser.Reparsable.get_params

    def get_parser(self: Any, show_restriction: bool = False, show_dictionaries: bool = False, show_dict_fullname: bool = False, show_dict_contents: bool = False, show_empty_cartesian_product: bool = True) -> Any:
        key = (_steps_key(self), show_empty_cartesian_product)
        if key not in _memo_parser:
            try:
                parser = real_get_parser(self, False, False, False, False, show_empty_cartesian_product)
                _memo_parser[key] = ("ok", list(parser.get_dicts()))
            except params_parser.EmptyCartesianProduct as e:
                _memo_parser[key] = ("empty", str(e))
        kind, val = _memo_parser[key]
        if kind == "empty":
            raise params_parser.EmptyCartesianProduct(val)
        return _MemoParser(val)

    def get_params(self: Any, list_of_keys: Any = None, dict_index: int = 0, show_restriction: bool = False, show_dictionaries: bool = False, show_dict_fullname: bool = False, show_dict_contents: bool = False) -> Any:
        key = (_steps_key(self), tuple(list_of_keys) if list_of_keys is not None else None, dict_index)
        if key not in _memo_params:
            try:
                _memo_params[key] = ("ok", dict(real_get_params(self, list_of_keys, dict_index)))
            except (params_parser.EmptyCartesianProduct, ValueError) as e:
                _memo_params[key] = ("err", e)
        kind, val = _memo_params[key]
        if kind == "err":
            raise type(val)(*val.args)
        return Params(_copy_dict(val))

    params_parser.Reparsable.get_parser = get_parser
    params_parser.Reparsable.get_params = get_params

    # virttest's Params.object_params/copy dominate the run time (item-wise UserDict
    # copies); equivalent dict-level versions, cross-checked against the originals on
    # the first calls of every process
    orig_object_params = Params.object_params
    budget = [25]

    def fast_copy(self: Any) -> Any:
        new = Params.__new__(Params)
        new.__dict__.update(self.__dict__)
        new.data = dict(self.data)
        return new

    def fast_object_params(self: Any, obj_name: str) -> Any:
        suffix = "_" + obj_name
        src = self.data
        data = dict(src)
        for key, val in src.items():
            if key.endswith(suffix):
                data[key.split(suffix)[0]] = val
        new = Params.__new__(Params)
        new.__dict__.update(self.__dict__)
        new.data = data
        if budget[0] > 0:
            budget[0] -= 1
            ref = orig_object_params(self, obj_name)
            if list(ref.data.items()) != list(data.items()):
                raise AssertionError("fast object_params differs from virttest's")
        return new

    if Params.copy is not fast_copy:
        Params.copy = fast_copy
        Params.object_params = fast_object_params

    real_get_numeric = Params.get_numeric

    def get_numeric(self: Any, key: str, default: Any = 0, target_type: Any = int) -> Any:
        v = self.get(key, default)
        if isinstance(v, (symx.SymInt, symx.SymReal)):
            return v
        return real_get_numeric(self, key, default, target_type)

    Params.get_numeric = get_numeric


async def _run_test_task(self: Any, node: Any) -> None:
    """Replacement of TestRunner.run_test_task: one execution with a solver-chosen outcome."""
    run = CUR
    assert run is not None
    if not hasattr(self.job, "result") or self.job.result is None:
        raise RuntimeError("runner has no job result")
    worker = node.started_worker
    if worker is None:
        raise symx.Violation("a test was handed to the runner without a started worker", {"node": node.params["name"]})
    uid = node.id_test.uid
    name = node.params["name"]
    ev = run.on_start(node, worker, uid)
    # what the real run_test_task hands to the spawner
    spawner = node.params.get("nets_spawner")
    if spawner == "remote":
        sess = node.started_worker.get_session()
        ev["spawn_handle"] = (getattr(sess, "host", None), str(getattr(sess, "port", None)))
    elif spawner == "lxc":
        ev["spawn_handle"] = node.params["nets_host"] or "process"
    await vsched.Suspend("test", run.duration_of(ev), ev)
    status = run.choose_status(ev)
    if status.startswith("LATE:"):
        # the result record arrives only while the runner is already polling for it
        status = status[5:]
        run.late[worker.id] = {"name": _MockID(uid, name), "status": status, "time_elapsed": run.elapsed_of(ev), "logdir": "."}
        ev["late"] = True
    elif status != "NONE":
        self.job.result.tests.append({"name": _MockID(uid, name), "status": status, "time_elapsed": run.elapsed_of(ev), "logdir": "."})
    run.on_end(ev, status)


class DoorShim:
    """Stands in for aexpect.remote_door inside cartgraph.node (state control seam)."""

    DUMP_CONTROL_DIR = "/tmp"
    _action = "check"
    _params: Any = None

    @staticmethod
    def set_subcontrol_parameter(path: str, key: str, value: Any) -> str:
        DoorShim._action = value
        return path

    @staticmethod
    def set_subcontrol_parameter_dict(path: str, key: str, value: Any) -> str:
        DoorShim._params = value
        return path

    @staticmethod
    def run_subcontrol(session: Any, path: str) -> None:
        from aexpect.exceptions import ShellCmdError

        assert CUR is not None
        CUR.door_session = (getattr(session, "host", None), str(getattr(session, "port", None)))
        ok = CUR.door(DoorShim._action, DoorShim._params)
        if not ok:
            raise ShellCmdError(1, "command", "AssertionError")


# ---------------------------------------------------------------------------
# scenarios (the concrete menu, L1)


class Scenario:
    def __init__(self, name: str, restriction: str, nets: str, lazy: bool = True, vm_strs: dict[str, str] | None = None, params: dict[str, str] | None = None, vms: str | None = None) -> None:
        self.name = name
        self.restriction = restriction
        self.nets = nets
        self.lazy = lazy
        self.vm_strs = vm_strs or {"vm1": "only CentOS\n", "vm2": "only Win10\n", "vm3": "only Ubuntu\n"}
        self.params = params or {}
        self.vms = vms

    def param_dict(self) -> dict[str, str]:
        d = {"nets": self.nets, "test_timeout": "100", "shared_pool": "/mnt/local/images/shared"}
        if self.vms:
            d["vms"] = self.vms
        d.update(self.params)
        return d

    def build(self) -> Any:
        from avocado_i2n.cartgraph import TestGraph

        params = self.param_dict()
        if self.lazy:
            graph = TestGraph()
            graph.restrs.update(self.vm_strs)
            loaded = TestGraph.parse_flat_nodes(self.restriction, params)
            for node in loaded:
                node.update_restrs(self.vm_strs)
            graph.new_nodes(loaded)
            graph.parse_shared_root_from_object_roots(params)
            graph.new_workers(TestGraph.parse_workers(params))
        else:
            tests_str = "".join(f"only {r}\n" for r in self.restriction.split("\n") if r) if not self.restriction.startswith("only") else self.restriction
            graph = TestGraph.parse_object_trees(None, tests_str, "", self.vm_strs, params)
        return graph


DEEP_PRESENT = {"install": ["shared"], "customize": ["shared"]}


def menu(name: str, **kw: Any) -> Scenario:
    """The concrete selections of the shipped sample suite used by the traversal checks (L1)."""
    table = {
        "G1": ("normal..tutorial1", "net1 net2"),
        "G1x3": ("normal..tutorial1", "net1 net2 net3"),
        "G1x1": ("normal..tutorial1", "net1"),
        "G2": ("normal..tutorial3", "net1 net2"),
        "G2x3": ("normal..tutorial3", "net1 net2 net3"),
        "G3": ("leaves..tutorial_gui", "net1 net2"),
        "G3x3": ("leaves..tutorial_gui", "net1 net2 net3"),
        "G23": ("leaves..tutorial2,leaves..tutorial_gui", "net1 net2"),
        "G4": ("leaves..tutorial_get", "net1 net2"),
        "G4f": ("leaves..tutorial_finale", "net1 net2"),
        "G4fx3": ("leaves..tutorial_finale", "net1 net2 net4"),
        "G4i": ("leaves..tutorial_get..explicit_noop,leaves..tutorial_get..implicit_both", "net1 net2"),
        "G5": ("normal..tutorial1", "net1 net5"),
        "G5b": ("normal..tutorial3", "net3 net5"),
        "G6": ("leaves..tutorial_gui", "cluster1.net6 cluster1.net7 cluster2.net6"),
        "G6b": ("normal..tutorial3", "cluster1.net6 cluster2.net6"),
        "G6c": ("leaves..tutorial_gui", "cluster1.net6 cluster1.net7"),
        "G6d": ("leaves..tutorial_gui", "cluster1.net6 cluster2.net6"),
        "G7": ("leaves..tutorial_get..explicit_noop", "cluster1.net6 cluster1.net7"),
        "G7x": ("leaves..tutorial_get..explicit_noop", "cluster1.net6 cluster2.net6"),
        "G7l": ("leaves..tutorial_get..explicit_noop", "net1 net2"),
        "G8": ("leaves..client_noop,leaves..explicit_noop", "net1 net5"),
        "G8b": ("leaves..client_noop,leaves..explicit_noop", "net1 net2"),
        "G9": ("leaves..tutorial1,leaves..tutorial2", "net1 net2"),
        "G4g": ("leaves..tutorial_get..implicit_both,leaves..tutorial_finale", "net1"),
        "G4h": ("leaves..tutorial_get..implicit_both,leaves..tutorial_finale", "net1 net2"),
        "G4j": ("leaves..tutorial_finale,leaves..tutorial_get..implicit_both", "net1"),
        "G4k": ("leaves..tutorial_finale,leaves..tutorial_get..implicit_both", "net1 net2"),
        "G10": ("normal..tutorial_gui..client_noop,leaves..tutorial_get..explicit_noop", "net1 net2"),
        "G0": ("normal..tutorial1", "net0"),
    }
    restriction, nets = table[name]
    lazy = kw.pop("lazy", True)
    label = kw.pop("label", name + ("" if lazy else "-eager"))
    return Scenario(label, restriction, kw.pop("nets", nets), lazy=lazy, **kw)


# ---------------------------------------------------------------------------
# one run


class Config:
    """Bounds and switches of an exploration (plain data)."""

    def __init__(self, **kw: Any) -> None:
        self.K = 1
        self.max_nonpass = 1
        self.statuses = ["PASS", "FAIL"]
        self.pool_bits = "none"  # "none" | "shared" | "all"
        self.pool_states: list[str] | None = None  # restrict symbolic bits to these state names
        self.pool_fixed: dict[str, list[str]] = {}  # state name -> pools ("shared", "own", worker id) that hold it initially
        self.max_steps = 3000
        self.node_params: dict[str, Any] = {}
        self.prune = True
        self.elapsed = "1"
        self.timed = False
        self.overrun = 1.0  # timed mode: executions last up to overrun x test_timeout (> 1: tests may hang past their timeout)
        self.elapsed_options: list[str] = []
        self.atomic_status_wait = True  # False: the runner's polling for a late result is a scheduling point
        self.tool_crash = False  # tools: the environment fails to start (RuntimeError inside the tool instead of a traversal)
        self.real_layer = False  # also ask the real states.setup/pool layer whether a test can fetch its states
        self.__dict__.update(kw)


class Run:
    def __init__(self, eng: symx.Engine, scenario: Scenario, config: Config) -> None:
        self.eng = eng
        self.scenario = scenario
        self.config = config
        self.trace: list[dict[str, Any]] = []
        self.running: dict[int, dict[str, Any]] = {}
        self.own: dict[str, dict[tuple[str, str], Any]] = {}
        self.shared: dict[tuple[str, str], Any] = {}
        self.asked: list[tuple[str, str, str, bool]] = []
        self.n_exec = 0
        self.nonpass_terms: list[Any] = []
        self.steps = 0
        self.graph: Any = None
        self.runner: Any = None
        self.crash: Any = None
        self.wiped: list[tuple[str, str]] = []
        self.late: dict[str, Any] = {}
        self.real_agree = 0
        self.real_disagree = 0
        self.visits: list[tuple[Any, str, str]] = []

    # -- store model -----------------------------------------------------------
    def bit(self, where: str, key: tuple[str, str]) -> bool:
        """Is (object, state) in the own pool of worker ``where`` or in the "shared" pool?"""
        store = self.shared if where == "shared" else self.own.setdefault(where, {})
        if key not in store:
            fixed = self._fixed(where, key)
            sym = self._initially_symbolic(where, key) if fixed is None else False
            if fixed is not None:
                store[key] = fixed
            elif sym:
                store[key] = bool(symx.SymBool(name=f"pool:{where}:{key[0]}:{key[1]}"))
            else:
                store[key] = False
            self.asked.append((where, key[0], key[1], store[key]))
        return store[key]

    def _fixed(self, where: str, key: tuple[str, str]) -> bool | None:
        pools = self.config.pool_fixed.get(key[1])
        specific = [k for k in self.config.pool_fixed if k.endswith(":" + key[1])]
        if specific:
            # "object:state" entries: the state is there for the named objects only
            pools = self.config.pool_fixed.get(key[0].split("|")[0] + ":" + key[1], [])
        if pools is None:
            return None
        return ("shared" if where == "shared" else "own") in pools or where in pools

    def _initially_symbolic(self, where: str, key: tuple[str, str]) -> bool:
        c = self.config
        if c.pool_bits == "none":
            return False
        if c.pool_bits == "shared" and where != "shared":
            return False
        if c.pool_states is not None and key[1] not in c.pool_states:
            return False
        return True

    def present_for(self, wid: str, key: tuple[str, str], sources: list[str]) -> bool:
        """State visible to worker ``wid``: own pool, or one of the given sources ("shared" or worker ids)."""
        if self.bit(wid, key):
            return True
        for s in sources:
            if self.bit(s, key):
                return True
        return False

    # -- execution seam --------------------------------------------------------
    def source_ids(self, wid: str, locations: str, node_params: Any) -> list[str]:
        """Pools named by a location list that worker ``wid`` is permitted to read (besides its own)."""
        scopes = node_params.get("pool_scope", "own swarm cluster shared").split()
        me = self.graph.workers[wid].params
        out = []
        for loc in locations.split():
            src, _path = loc.split(":", 1)
            if src == "":
                if "shared" in scopes:
                    out.append("shared")
                continue
            if src == wid or src not in self.graph.workers:
                continue
            other = self.graph.workers[src].params
            if me["nets_gateway"] != other["nets_gateway"]:
                cls = "cluster"
            elif me["nets_host"] != other["nets_host"]:
                cls = "swarm"
            else:
                cls = "own"
            if cls != "own" and cls in scopes:
                out.append(src)
        return out

    def on_start(self, node: Any, worker: Any, uid: str) -> dict[str, Any]:
        self.n_exec += 1
        needs = needed_states(node)
        missing = []
        for need in needs:
            if need["state"] in ROOT_STATES or need["permanent"]:
                continue
            srcs = self.source_ids(worker.id, need["locations"], node.params)
            need["sources"] = srcs
            if not self.present_for(worker.id, (need["object"], need["state"]), srcs):
                key = (need["object"], need["state"])
                # where the state is at this moment (pools looked at so far), for the classification of findings
                need["holders_now"] = sorted(w for w, store in self.own.items() if store.get(key) is True)
                need["shared_now"] = self.shared.get(key) is True
                missing.append(need)
        real_missing = None
        if self.config.real_layer:
            from . import realdoor

            ok, why = realdoor.could_fetch(self, node, worker)
            real_missing = None if ok else why
            self.real_agree += int(ok == (not missing))
            self.real_disagree += int(ok != (not missing))
            if not ok and not missing:
                # the real layer cannot fetch although the model found every state: keep the outcome realistic
                missing = [dict(n, real_layer=why) for n in needs if n["state"] not in ROOT_STATES and not n["permanent"]][:1]
        ev = {"missing": missing, "real_missing": real_missing,
            "kind": "start", "idx": len(self.trace), "exec": self.n_exec, "worker": worker.id, "swarm": worker.swarm_id,
            "name": node.params["name"], "shortname": node.params["shortname"], "uid": uid, "prefix": node.prefix,
            "bridged": bridged_name(node), "node": node, "params": dict(node.params),
            "needs": needs, "sets": produced_states(node), "object_root": node.params.get("object_root"), "type": node.params.get("type"),
            "scope": scope_of(node.params, worker),
            "running_now": [e["exec"] for e in self.running.values()],
            "pre_results": [dict(r) for r in node.results],
        }
        self.trace.append(ev)
        self.running[self.n_exec] = ev
        return ev

    def duration_of(self, ev: dict[str, Any]) -> Any:
        if not self.config.timed:
            return 0
        limit = float(ev["params"].get("test_timeout", 3600)) * self.config.overrun
        d = z3.Real(self.eng.fresh(f"duration{ev['exec']}"))
        self.eng.assume(z3.And(d > 0, d < z3.RealVal(repr(limit))), check=False)
        ev["duration"] = d
        return d

    def elapsed_of(self, ev: dict[str, Any]) -> str:
        opts = self.config.elapsed_options
        if len(opts) <= 1:
            return self.config.elapsed
        # the recorded duration of an execution (the runner turns a PASS that took > 1.25 x the longest earlier PASS into WARN)
        return opts[symx.choose(len(opts), f"elapsed{ev['exec']}")]

    def choose_status(self, ev: dict[str, Any]) -> str:
        c = self.config
        if ev.get("missing"):
            # a test whose required state is absent cannot succeed (get_mode "ra": abort)
            return "ERROR"
        options = list(c.statuses)
        if len(options) == 1:
            return options[0]
        v = z3.Int(self.eng.fresh(f"status{ev['exec']}"))
        self.eng.assume(z3.And(v >= 0, v < len(options)), check=False)
        passing = [i for i, s in enumerate(options) if s in ("PASS", "LATE:PASS")]
        self.nonpass_terms.append(z3.If(z3.Or(*[v == i for i in passing]), 0, 1) if passing else z3.IntVal(1))
        self.eng.assume(z3.Sum(*self.nonpass_terms) <= c.max_nonpass if len(self.nonpass_terms) > 1 else self.nonpass_terms[0] <= c.max_nonpass, check=False)
        return options[self.eng.concretize(v, f"status{ev['exec']}")]

    def on_end(self, ev: dict[str, Any], status: str) -> None:
        del self.running[ev["exec"]]
        end = {"kind": "end", "idx": len(self.trace), "exec": ev["exec"], "worker": ev["worker"], "name": ev["name"], "bridged": ev["bridged"], "status": status, "uid": ev["uid"]}
        ev["status"] = status
        ev["end_idx"] = end["idx"]
        self.trace.append(end)
        if status in SAVING:
            own = self.own.setdefault(ev["worker"], {})
            for key in ev["sets"]:
                if key[1] in ROOT_STATES:
                    # (re)creating an object replaces its image: every state kept in it is gone
                    image = key[0]
                    vm = image.split("|")[0].split("_")[-1] + "|" + image.split("|")[1]
                    for other in list(own):
                        if other[0] in (image, vm) and other[1] not in ROOT_STATES:
                            own[other] = False
                    self.wiped.append((ev["worker"], image))
                own[key] = True

    # -- state control seam ----------------------------------------------------
    def door(self, action: str, params: Any) -> bool:
        """Model of pre_state.control: check / get / unset on the acting worker's pools."""
        wid = self._worker_of(params)
        reqs = door_requests(action, params)
        node = next((n for n in self.graph.nodes if not n.is_flat() and n.params.get("name") == params.get("name")), None)
        removable = {}
        if node is not None:
            for obj in node.objects:
                if obj.key == "nets":
                    continue
                op = obj.object_typed_params(node.params)
                if op.get("set_state"):
                    removable[f"{object_key(obj)}:{op.get('set_state')}"] = op.get("unset_mode", "ri")[0] == "f"
        ev = {"kind": "door", "idx": len(self.trace), "action": action, "worker": wid, "requests": reqs,
              "node_bridged": bridged_name(node) if node is not None else None,
              "scope": scope_of(node.params, self.graph.workers[wid]) if node is not None and wid in self.graph.workers else "global",
              "removable": removable, "session": getattr(self, "door_session", None), "running_now": [dict(exec=e["exec"], bridged=e["bridged"], worker=e["worker"]) for e in self.running.values()], "pool_scope": params.get("pool_scope")}
        self.trace.append(ev)
        if action == "check":
            ok = True
            answers = []
            for obj, state, sources in reqs:
                src = ["shared" if s.startswith(":") else s.split(":")[0] for s in sources]
                scopes = params.get("pool_scope", "own swarm cluster shared").split()
                src = [s for s in src if (s == "shared" and "shared" in scopes) or (s != "shared")]
                here = self.present_for(wid, (obj, state), src) if "own" in scopes else any(self.bit(s, (obj, state)) for s in src)
                answers.append(here)
                ok = ok and here
            ev["answers"] = answers
            # independent of how the request was phrased: are all states this test produces there for this worker?
            if node is not None:
                produced = [k for k in produced_states(node) if k[1] not in ROOT_STATES]
                scopes = params.get("pool_scope", "own swarm cluster shared").split()
                shared = ["shared"] if "shared" in scopes else []
                if produced:
                    ev["produced_available"] = all((self.present_for(wid, k, shared) if "own" in scopes else any(self.bit(s, k) for s in shared)) for k in produced)
            return ok
        if action == "unset":
            for obj, state, sources in reqs:
                self.own.setdefault(wid, {})[(obj, state)] = False
                for s in sources:
                    if s.startswith(":") and "shared" in params.get("pool_scope", "").split():
                        self.shared[(obj, state)] = False
            return True
        if action == "get":
            for obj, state, sources in reqs:
                src = ["shared" if s.startswith(":") else s.split(":")[0] for s in sources]
                if any(self.bit(s, (obj, state)) for s in src):
                    self.own.setdefault(wid, {})[(obj, state)] = True
            return True
        return True

    def _worker_of(self, params: Any) -> str:
        name = params.get("name", "")
        for w in self.graph.workers.values():
            if w.id in name.split("."):
                return w.id
        return params.get("nets", "?").split()[0]


ROOT_STATES = {"root", "0root", "boot", "0boot"}


def bridged_name(node: Any) -> str:
    """Worker-invariant name of a test node."""
    suffix = node.params.get("_name_map_file", {}).get("nets.cfg", "")
    form = node.setless_form
    return form.replace(suffix, "<net>") if suffix else form


def vm_variant(obj: Any) -> str:
    """Variant part of the name of a vm object (or of the vm an image belongs to)."""
    vm = obj if obj.key == "vms" else obj.composites[0]
    parts = vm.params.get("name", "").split(".", 2)
    return parts[2] if len(parts) > 2 else ""


def object_key(obj: Any) -> str:
    return obj.long_suffix + "|" + vm_variant(obj)


def needed_states(node: Any) -> list[dict[str, Any]]:
    out = []
    for obj in node.objects:
        if obj.key == "nets":
            continue
        op = obj.object_typed_params(node.params)
        st = op.get("get_state")
        if not st:
            continue
        out.append({"object": object_key(obj), "suffix": obj.long_suffix, "key": obj.key, "state": st, "permanent": (obj if obj.key == "vms" else obj.composites[0]).is_permanent(), "locations": node.params.get(f"get_location_{obj.long_suffix}", "")})
    return out


def produced_states(node: Any) -> list[tuple[str, str]]:
    out = []
    for obj in node.objects:
        if obj.key == "nets":
            continue
        op = obj.object_typed_params(node.params)
        st = op.get("set_state")
        if st:
            out.append((object_key(obj), st))
    return out


def _door_variant(params: Any, vm: str) -> str:
    m = re.search(r"(?:^|\.)%s\.(.+?)\.nets\." % re.escape(vm), params.get("name", ""))
    return m.group(1) if m else ""


def door_requests(action: str, params: Any) -> list[tuple[str, str, list[str]]]:
    """(object key, state, sources) triples a pre_state.control call addresses (read like states.setup does)."""
    out = []
    do_loc = "show" if action == "check" else action
    for vm in params.objects("vms"):
        vm_params = params.object_params(vm)
        variant = _door_variant(params, vm)
        for image in vm_params.objects("images"):
            image_params = vm_params.object_params(image)
            st = image_params.get(f"{action}_state_images")
            if st:
                src = image_params.get(f"{do_loc}_location_images", image_params.get(f"{do_loc}_location", ""))
                out.append((f"{image}_{vm}|{variant}", st, src.split()))
        st = vm_params.get(f"{action}_state_vms")
        if st:
            src = vm_params.get(f"{do_loc}_location_vms", vm_params.get(f"{do_loc}_location", ""))
            out.append((f"{vm}|{variant}", st, src.split()))
    return out


def scope_of(node_params: Any, worker: Any) -> str:
    """Reuse scope a worker belongs to for a given test (mirrors the documented pool_scope semantics)."""
    scopes = node_params.get("pool_scope", "own swarm cluster shared").split()
    spawner = node_params.get("nets_spawner")
    if "swarm" not in scopes and spawner == "lxc":
        return "worker:" + worker.id
    if "cluster" not in scopes and spawner == "remote":
        return "swarm:" + worker.swarm_id
    return "global"


# ---------------------------------------------------------------------------


def prepare(eng: symx.Engine, scenario: Scenario, config: Config) -> Run:
    """Parse a fresh graph and set up the runner the way run_workers does."""
    global CUR
    install()
    from unittest import mock

    from avocado_i2n.cartgraph import TestSwarm
    from avocado_i2n.plugins.runner import TestRunner

    run = Run(eng, scenario, config)
    CUR = run
    from avocado_i2n.cartgraph import TestWorker

    TestWorker._session_cache.clear()
    graph = scenario.build()
    job = mock.MagicMock()
    job.logdir = "."
    job.timeout = 6000
    job.result = mock.MagicMock()
    job.result.tests = []
    job.config = {"param_dict": scenario.param_dict(), "vm_strs": scenario.vm_strs, "tests_str": scenario.restriction}
    runner = TestRunner()
    runner.job = job
    runner.status_server = job
    graph.runner = runner
    run.graph, run.runner = graph, runner
    return run


def _deliver_late(wid: str) -> None:
    run = CUR
    if run is not None and wid in run.late:
        run.runner.job.result.tests.append(run.late.pop(wid))


def traverse(run: Run, params: dict[str, Any] | None = None) -> None:
    """Run all workers to completion under the scheduler; exceptions are recorded in run.crash."""
    vsched.STATUS_WAIT_HOOK = _deliver_late
    vsched.SHIM.atomic_status_wait = run.config.atomic_status_wait
    graph = run.graph
    params = params if params is not None else run.scenario.param_dict()
    workers = sorted(graph.workers.values(), key=lambda w: w.params["name"])
    coros = {w.id: graph.traverse_object_trees(w, params) for w in workers}
    on_step = lambda wid, kind: run.trace.append({"kind": "step", "idx": len(run.trace), "worker": wid, "what": kind})
    try:
        if run.config.timed:
            run.steps = vsched.run_timed(coros, max_steps=run.config.max_steps, on_step=on_step)
        else:
            run.steps = vsched.run_choice(coros, K=run.config.K, max_steps=run.config.max_steps, on_step=on_step)
    except (vsched.WorkerCrash, vsched.Livelock, vsched.StepBound) as e:
        run.crash = e
    finally:
        for c in coros.values():
            c.close()


# ---------------------------------------------------------------------------
# manual tools (intertest_setup) on the same harness


class ToolScenario:
    """A call of an intertest_setup tool (the selftests' job seam) instead of a plain traversal."""

    lazy = False
    restriction = ""

    def __init__(self, name: str, tool: str, nets: str = "net1", vm_strs: dict[str, str] | None = None, params: dict[str, str] | None = None, vms_params: dict[str, str] | None = None, tag: str = "1r") -> None:
        self.name = name
        self.tool = tool
        self.nets = nets
        self.available_vms = {"vm1": "only CentOS\n", "vm2": "only Win10\n", "vm3": "only Ubuntu\n"}
        self.vm_strs = vm_strs if vm_strs is not None else dict(self.available_vms)
        # the command line parser derives both from the same restrictions: a selected vm is available as selected
        self.available_vms.update(self.vm_strs)
        self.params = params or {}
        self.vms_params = vms_params or {}
        self.tag = tag

    def param_dict(self) -> dict[str, str]:
        d = {"nets": self.nets}
        d.update(self.params)
        return d


class ToolCrash(Exception):
    pass


_tools_installed = False


def install_tools() -> None:
    global _tools_installed
    install()
    if _tools_installed:
        return
    _tools_installed = True
    import contextlib
    from unittest import mock

    from avocado_i2n import intertest_setup
    from avocado_i2n.cartgraph import worker as worker_mod
    from avocado_i2n.plugins import runner as runner_mod

    @contextlib.contextmanager
    def new_job(config: Any) -> Any:
        job = mock.MagicMock()
        job.logdir = "."
        job.timeout = 60
        job.config = config
        job.result.tests = []
        loader, runner = config["graph"].l, config["graph"].r
        loader.logdir = job.logdir
        runner.job = job
        yield job

    intertest_setup.new_job = new_job
    worker_mod.TestWorker.start = lambda self: True
    runner_mod.SpawnerDispatcher = mock.MagicMock()

    def run_workers(self: Any, test_suite: Any, params: Any) -> None:
        run = CUR
        assert run is not None
        if run.config.tool_crash:
            raise RuntimeError("Failed to start environment (injected)")
        graph = test_suite
        graph.runner = self
        run.graph, run.runner = graph, self
        run.tool_graphs.append(graph)
        traverse(run, params)

    runner_mod.TestRunner.run_workers = run_workers


def run_tool(eng: symx.Engine, scenario: ToolScenario, config: Config) -> Run:
    """Call the tool; the graph it builds is traversed under the scheduler inside run_workers."""
    global CUR
    install_tools()
    from avocado_i2n import intertest_setup, params_parser
    from virttest.utils_params import Params

    run = Run(eng, scenario, config)  # type: ignore[arg-type]
    from avocado_i2n.cartgraph import TestWorker

    TestWorker._session_cache.clear()
    run.tool_graphs = []
    run.tool_result = None
    run.tool_error = None
    CUR = run
    cfg: dict[str, Any] = {}
    cfg["available_vms"] = dict(scenario.available_vms)
    cfg["available_restrictions"] = ["leaves", "normal", "minimal"]
    cfg["param_dict"] = scenario.param_dict()
    cfg["vm_strs"] = dict(scenario.vm_strs)
    cfg["tests_str"] = {}
    cfg["tests_params"] = Params()
    cfg["vms_params"] = Params(dict(scenario.vms_params))
    run.param_dict_before = dict(cfg["param_dict"])
    try:
        run.tool_result = getattr(intertest_setup, scenario.tool)(cfg, tag=scenario.tag)
    except (ValueError, params_parser.EmptyCartesianProduct) as e:
        # the tool refused the request before running anything
        run.tool_error = e
    except RuntimeError as e:
        if not config.tool_crash:
            raise
        run.tool_crashed = e
    # the dictionary the whole setup chain shares, as the next step would see it
    run.param_dict_after = dict(cfg["param_dict"])
    return run



def setup_previous(run: Run, by_workers: list[str] | None = None, statuses: tuple[str, ...] = ("-", "PASS", "FAIL")) -> None:
    """Solver-chosen results of a replayed previous job, per (bridged) test and attributed to one of the given workers."""
    run.previous_by_bridged = {}
    run.previous_producers = {}
    prev = []
    seen = set()
    workers = by_workers or sorted(run.graph.workers)
    for node in run.graph.nodes:
        if node.is_flat() or node.is_shared_root() or len(node.cloned_nodes) > 0 or node.is_object_root():
            continue
        b = bridged_name(node)
        if b in seen:
            continue
        seen.add(b)
        label = ".".join(b.split(".vms.")[0].split(".")[-2:])
        choice = statuses[symx.choose(len(statuses), f"previous:{label}")]
        if choice == "-":
            continue
        wid = workers[symx.choose(len(workers), f"previous_by:{label}")] if len(workers) > 1 else workers[0]
        copy_ = next((n for n in run.graph.nodes if not n.is_flat() and not n.is_shared_root() and bridged_name(n) == b and n.params.get("nets") == wid), node)
        prev.append({"name": copy_.params["name"], "status": choice, "time_elapsed": "1"})
        run.previous_by_bridged[b] = choice
        if choice in SAVING:
            for key in produced_states(copy_):
                run.previous_producers.setdefault(key, {})[wid] = choice
    run.runner.previous_results = prev

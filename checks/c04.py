"""C04 - traversal property (plans in trav_plans.py, monitor in monitors.py) + inductive step on real nodes (steps.py)."""

from __future__ import annotations

from typing import Any

from . import common, steps, trav_plans, travcheck

PID = "C04"
plans = trav_plans.PLANS[PID]
replay_trav = travcheck.make_replay(plans)


def replay(data: dict[str, Any]) -> tuple[bool, str]:
    if "case" in data:
        return steps.replay_occupied(data)
    return replay_trav(data)


def run(ctx: common.Context) -> None:
    steps.run_step(ctx, "occupied", 30, 400)
    travcheck.run_property(ctx, plans, replay_trav, quick_s=200, thorough_s=1500)
    ctx.assumptions.append("inductive step: params/results/started markers of real parsed bridged nodes are overwritten in place (restored afterwards); scope semantics oracle written from the property text")

"""
C19 - tunnel end point parameters mirror each other.

Real code: ``VMTunnel.__init__`` (with the real ``_get_peer_variant``, the real
``VMNode`` and ``VMNetconfig``), ``connects_nodes``.  Addresses, networks,
netmasks, PSK identities and nic names are uninterpreted atoms: the real
``dict`` of node interfaces forks on nic-name equality (aliasing of nic roles),
the generated parameters are compared with the documented counterpart table by
validity queries over the atoms.
"""

from __future__ import annotations

import itertools
from typing import Any

import z3

from engine import symx
from . import common

LOCALS = ["nic", "internetip", "custom"]
REMOTES = ["custom", "externalip", "modeconfig"]
PEERS = ["ip", "dynip"]
AUTHS = [None, "none", "pubkey", "psk"]


class Platform:
    def __init__(self, name: str) -> None:
        from virttest.utils_params import Params

        self.name = name
        self.params = Params()
        self.remote_sessions: list[Any] = []


class StubNet:
    def __init__(self, tag: str) -> None:
        self.net_ip = symx.SymAtom(f"net_{tag}", "net")
        self.netmask = symx.SymAtom(f"mask_{tag}", "mask")

    def __repr__(self) -> str:
        return "<net>"


class StubIface:
    def __init__(self, tag: str) -> None:
        self.ip = symx.SymAtom(f"ip_{tag}", "ip")
        self.netconfig = StubNet(tag)

    def __repr__(self) -> str:
        return "<iface>"


def build_node(name: str, eng: symx.Engine, n_ifaces: int):
    """A real VMNode with ``n_ifaces`` interfaces under atom names; the three nic roles pick among them."""
    from avocado_i2n.vmnet.node import VMNode

    node = VMNode(Platform(name))
    nic_atoms = [symx.SymAtom(f"{name}_nic{i}", "nic") for i in range(n_ifaces)]
    for a, b in itertools.combinations(nic_atoms, 2):
        eng.assume(a.z != b.z, check=False)
    ifaces = []
    for i, a in enumerate(nic_atoms):
        ifc = StubIface(f"{name}_{i}")
        node.interfaces[a] = ifc
        ifaces.append(ifc)
    roles = {}
    for role in ("lan_nic", "internet_nic"):
        # the role parameter holds *some* nic name (a fresh atom constrained to be one of the node's)
        v = symx.SymAtom(f"{name}_{role}", "nic")
        eng.assume(z3.Or(*[v.z == a.z for a in nic_atoms]), check=False)
        node.params[role] = v
        roles[role] = v
    return node, nic_atoms, ifaces, roles


def z_same(a: Any, b: Any) -> Any:
    """z3 formula / bool: are two parameter values the same value?"""
    if isinstance(a, symx.SymAtom) and isinstance(b, symx.SymAtom):
        if a.tag != b.tag:
            return False
        return a.z == b.z
    if isinstance(a, symx.SymAtom) or isinstance(b, symx.SymAtom):
        return False
    return a == b


def iface_of(nic_atoms: list[Any], ifaces: list[Any], role_atom: Any, field: str) -> list[tuple[Any, Any]]:
    """[(condition, value)]: the value of ``field`` of the interface the role atom names."""
    out = []
    for a, ifc in zip(nic_atoms, ifaces):
        obj = ifc
        for f in field.split("."):
            obj = getattr(obj, f)
        out.append((role_atom.z == a.z, obj))
    return out


def expect_cases(eng: symx.Engine, got: Any, cases: list[tuple[Any, Any]], what: str) -> None:
    """For every alternative: condition implies got == value."""
    for cond, val in cases:
        same = z_same(got, val)
        if same is False:
            formula = z3.Not(cond)
        elif same is True:
            continue
        else:
            formula = z3.Implies(cond, same)
        if not eng.prove(formula, what):
            raise symx.Violation(what, None)


# tunnels built earlier in the same process (vmnet builds many): representative predecessors
PREVIOUS = [None, ("internetip", "externalip", "ip"), ("custom", "custom", "ip"), ("nic", "modeconfig", "dynip")]
_pristine: dict[str, Any] = {}


def _fresh_class_state() -> None:
    """Every path (and every replay) starts from the class-level state the module was imported with."""
    import copy

    from avocado_i2n.vmnet.tunnel import VMTunnel

    if not _pristine:
        _pristine["attrs"] = {k: copy.deepcopy(v) for k, v in vars(VMTunnel).items() if isinstance(v, (dict, list, set))}
    for k, v in _pristine["attrs"].items():
        setattr(VMTunnel, k, copy.deepcopy(v))


def _concrete_nodes(n_if: int) -> list[Any]:
    from avocado_i2n.vmnet.node import VMNode

    class CNet:
        def __init__(self, n: str) -> None:
            self.net_ip, self.netmask = f"10.{n}.0.0", "255.255.0.0"

    class CIf:
        def __init__(self, n: str) -> None:
            self.ip, self.netconfig = f"10.{n}.0.1", CNet(n)

    nodes = []
    for idx, name in enumerate(("vm1", "vm2")):
        node = VMNode(Platform(name))
        # the role -> nic mapping is per vm: the second vm names its nics differently and swaps the roles' positions
        names = [f"nic{i}" for i in range(n_if)] if idx == 0 else [f"b{n_if - 1 - i}" for i in range(n_if)]
        for i, nic in enumerate(names):
            node.interfaces[nic] = CIf(f"{idx + 1}{i}")
        node.params["lan_nic"] = names[0]
        node.params["internet_nic"] = names[-1]
        nodes.append(node)
    return nodes


def _build_previous(which: int) -> None:
    from avocado_i2n.vmnet.tunnel import VMTunnel

    if PREVIOUS[which] is None:
        return
    lt, rt, pt = PREVIOUS[which]
    a, b = _concrete_nodes(2)
    local = {"type": lt, "nic": "lan_nic", "lnet": "172.26.0.0", "lmask": "255.255.0.0", "rnet": "172.27.0.0", "rmask": "255.255.255.0"}
    remote = {"type": rt, "nic": "lan_nic", "modeconfig_ip": "172.31.0.1"}
    try:
        VMTunnel("vpn0", a, b, local, remote, {"type": pt, "nic": "internet_nic"}, None)
    except (ValueError, KeyError):
        pass


def _make():
    from avocado_i2n.vmnet.tunnel import VMTunnel

    col = common.Collector()

    def fn(eng: symx.Engine) -> Any:
        _fresh_class_state()
        previous = eng.pick(len(PREVIOUS), "previous tunnel")
        _build_previous(previous)
        lt = (LOCALS + ["bogus"])[eng.pick(4, "local")]
        rt = (REMOTES + ["bogus"])[eng.pick(4, "remote")]
        pt = (PEERS + ["bogus"])[eng.pick(3, "peer")]
        at = (AUTHS + ["bogus"])[eng.pick(5, "auth")]
        n_if = eng.pick(2, "ifaces") + 1
        n1, nics1, ifs1, roles1 = build_node("vm1", eng, n_if)
        n2, nics2, ifs2, roles2 = build_node("vm2", eng, n_if)
        lnet, lmask, rnet, rmask = (symx.SymAtom(n, t) for n, t in (("lnet", "net"), ("lmask", "mask"), ("rnet", "net"), ("rmask", "mask")))
        mcip = symx.SymAtom("modeconfig_ip", "ip")
        local1: dict[str, Any] = {"type": lt, "nic": "lan_nic"}
        if lt == "custom":
            local1.update({"lnet": lnet, "lmask": lmask, "rnet": rnet, "rmask": rmask})
        remote1: dict[str, Any] = {"type": rt, "nic": "lan_nic"}
        if rt == "modeconfig":
            remote1["modeconfig_ip"] = mcip
        peer1 = {"type": pt, "nic": "internet_nic"}
        auth = None
        lid = rid = psk = None
        if at is not None:
            auth = {"type": at}
            if at == "psk":
                psk = symx.SymAtom("psk", "secret")
                lid = "" if eng.pick(2, "left_id_empty") == 0 else symx.SymAtom("left_id", "id")
                rid = "" if eng.pick(2, "right_id_empty") == 0 else symx.SymAtom("right_id", "id")
                auth.update({"psk": psk, "left_id": lid, "right_id": rid})
        combo = {"local": lt, "remote": rt, "peer": pt, "auth": at, "ifaces": n_if, "left_id_empty": lid == "", "right_id_empty": rid == "", "previous": previous}
        valid = "bogus" not in (lt, rt, pt, at)
        try:
            tun = VMTunnel("vpn1", n1, n2, local1, remote1, peer1, auth)
        except ValueError as e:
            if valid:
                raise symx.Violation(f"documented combination rejected: {e}", {"combo": combo, "class": f"rejects_documented auth={at}" if at == "none" else "rejects_documented"})
            col.count("rejected_unsupported")
            return None
        except KeyError as e:
            # an unsupported type must be reported as ValueError, not leak a KeyError
            if valid:
                raise symx.Violation(f"documented combination raised KeyError {e}", {"combo": combo, "class": "keyerror"})
            raise symx.Violation(f"unsupported type leaked KeyError {e} instead of ValueError", {"combo": combo, "class": "unsupported_keyerror"})
        if not valid:
            raise symx.Violation("unsupported type accepted", {"combo": combo, "class": "accepts_unsupported"})
        col.count("tunnels")
        P = tun.params
        L, R = tun.left_params, tun.right_params

        def need(params: Any, key: str, side: str) -> Any:
            if key not in params:
                raise symx.Violation(f"{side} parameter {key} missing", {"combo": combo, "class": f"missing {side} {key}"})
            return params[key]

        def absent(params: Any, key: str, side: str) -> None:
            if key in params:
                raise symx.Violation(f"{side} parameter {key} must not be generated", {"combo": combo, "class": f"spurious {side} {key}"})

        def same(got: Any, want: Any, what: str) -> None:
            s = z_same(got, want)
            if s is True:
                return
            if s is False or not eng.prove(s, what):
                raise symx.Violation(what, {"combo": combo, "class": what})

        try:
            # sides and documented counterpart types
            same(need(L, "vpn_side", "left"), "left", "left side flag")
            same(need(R, "vpn_side", "right"), "right", "right side flag")
            same(need(L, "vpnconn", "left"), "vpn1", "left conn name")
            same(need(R, "vpnconn", "right"), "vpn1", "right conn name")
            same(need(L, "vpnconn_lan_type", "left"), lt.upper(), "left lan type")
            same(need(L, "vpnconn_remote_type", "left"), rt.upper(), "left remote type")
            same(need(L, "vpnconn_peer_type", "left"), pt.upper(), "left peer type")
            want_r_lan = {"custom": "CUSTOM" if lt == "custom" else "NIC", "externalip": "INTERNETIP", "modeconfig": "NIC"}[rt]
            want_r_remote = {"nic": "CUSTOM", "internetip": "EXTERNALIP", "custom": "CUSTOM"}[lt]
            same(need(R, "vpnconn_lan_type", "right"), want_r_lan, "right lan type is the counterpart of the left remote type")
            same(need(R, "vpnconn_remote_type", "right"), want_r_remote, "right remote type is the counterpart of the left local type")
            same(need(R, "vpnconn_peer_type", "right"), "IP", "right peer type")
            # networks mirror
            if lt == "nic":
                for key_l, key_r, fld in (("vpnconn_lan_net", "vpnconn_remote_net", "netconfig.net_ip"), ("vpnconn_lan_netmask", "vpnconn_remote_netmask", "netconfig.netmask")):
                    gl, gr = need(L, key_l, "left"), need(R, key_r, "right")
                    same(gl, gr, f"left {key_l} == right {key_r}")
                    expect_cases(eng, gl, iface_of(nics1, ifs1, roles1["lan_nic"], fld), f"left {key_l} is the left lan nic's {fld}")
            elif lt == "custom":
                same(need(L, "vpnconn_lan_net", "left"), lnet, "left lan net is the custom lnet")
                same(need(L, "vpnconn_lan_netmask", "left"), lmask, "left lan netmask is the custom lmask")
            if rt == "custom":
                for key_l, key_r, fld, cust in (("vpnconn_remote_net", "vpnconn_lan_net", "netconfig.net_ip", rnet), ("vpnconn_remote_netmask", "vpnconn_lan_netmask", "netconfig.netmask", rmask)):
                    gl, gr = need(L, key_l, "left"), need(R, key_r, "right")
                    same(gl, gr, f"left {key_l} == right {key_r}")
                    if lt == "custom":
                        same(gr, cust, f"right {key_r} is the custom value")
                    else:
                        expect_cases(eng, gr, iface_of(nics2, ifs2, roles2["lan_nic"], fld), f"right {key_r} is the right lan nic's {fld}")
            else:
                if rt == "modeconfig":
                    same(need(L, "vpnconn_remote_modeconfig_ip", "left"), mcip, "modeconfig ip")
            # peers point at each other
            if pt == "ip":
                expect_cases(eng, need(L, "vpnconn_peer_ip", "left"), iface_of(nics2, ifs2, roles2["internet_nic"], "ip"), "left peer ip is the right internet address")
                same(need(L, "vpnconn_activation", "left"), "ALWAYS", "left activation")
            else:
                same(need(L, "vpnconn_activation", "left"), "PASSIVE", "left activation (road warrior)")
            expect_cases(eng, need(R, "vpnconn_peer_ip", "right"), iface_of(nics1, ifs1, roles1["internet_nic"], "ip"), "right peer ip is the left internet address")
            same(need(R, "vpnconn_activation", "right"), "ALWAYS", "right activation")
            # end point bookkeeping used by connects_nodes
            expect_cases(eng, tun.left_iface.ip, iface_of(nics1, ifs1, roles1["internet_nic"], "ip"), "left_iface")
            expect_cases(eng, tun.right_iface.ip, iface_of(nics2, ifs2, roles2["internet_nic"], "ip"), "right_iface")
            # authentication
            want_key = {None: "NONE", "none": "NONE", "pubkey": "PUBLIC", "psk": "PSK"}[at]
            for side, prm in (("left", L), ("right", R)):
                same(need(prm, "vpnconn_key_type", side), want_key, f"{side} key type")
            if at == "psk":
                for side, prm, own, foreign in (("left", L, lid, rid), ("right", R, rid, lid)):
                    same(need(prm, "vpnconn_psk", side), psk, f"{side} psk")
                    same(need(prm, "vpnconn_psk_own_id", side), own, f"{side} own psk id")
                    same(need(prm, "vpnconn_psk_foreign_id", side), foreign, f"{side} foreign psk id")
                    same(need(prm, "vpnconn_psk_own_id_type", side), "IP" if own == "" else "CUSTOM", f"{side} own id type")
                    same(need(prm, "vpnconn_psk_foreign_id_type", side), "IP" if foreign == "" else "CUSTOM", f"{side} foreign id type")
        except symx.Violation as v:
            if not isinstance(v.detail, dict):
                v.detail = {"combo": combo, "class": v.what}
            raise
        # connects_nodes does not depend on the order of its arguments
        _check_symmetry(eng, tun, n1, n2, combo)
        if len(col.samples) < 3:
            col.samples.append({"combo": combo, "left": sorted(L.keys())[:6], "right": sorted(R.keys())[:6]})
        return None

    def on_path(eng: symx.Engine, outcome: str, payload: Any) -> None:
        if outcome == "violation":
            d = payload.detail if isinstance(payload.detail, dict) else {"class": payload.what}
            col.violations.append((payload.what, d.get("class", payload.what), d))

    def collect() -> Any:
        col.functions = set(common.TRACER.seen)
        return col

    return fn, on_path, collect


class SymNet:
    """Netconfig stub whose membership predicates are solver variables."""

    def __init__(self, tag: str) -> None:
        self.tag = tag
        self.cache: dict[tuple[str, int], symx.SymBool] = {}
        self.raises = symx.SymBool(name=f"{tag}_raises")
        self.net_ip = f"<{tag}>"

    def _p(self, kind: str, iface: Any) -> symx.SymBool:
        key = (kind, id(iface))
        if key not in self.cache:
            self.cache[key] = symx.SymBool(name=f"{self.tag}_{kind}_{len(self.cache)}")
        return self.cache[key]

    def has_interface(self, iface: Any) -> Any:
        return self._p("has", iface)

    def can_add_interface(self, iface: Any) -> Any:
        if self.raises:
            raise IndexError("already present")
        return self._p("can", iface)


def _check_symmetry(eng: symx.Engine, tun: Any, n1: Any, n2: Any, combo: dict[str, Any]) -> None:
    from avocado_i2n.vmnet.node import VMNode

    if tun.left_net is not None:
        tun.left_net = SymNet("leftnet")
    if tun.right_net is not None:
        tun.right_net = SymNet("rightnet")
    third = VMNode(Platform("vm3"))
    third.interfaces["x"] = StubIface("vm3_0")
    nodes = [n1, n2, third]
    a = nodes[eng.pick(3, "node_a")]
    b = nodes[eng.pick(3, "node_b")]

    def call(x: Any, y: Any) -> Any:
        try:
            return bool(tun.connects_nodes(x, y))
        except IndexError:
            return "IndexError"

    ab, ba = call(a, b), call(b, a)
    # a misconfiguration error raised by the netconfig (IndexError) is not an answer to
    # "does it connect": only answers are compared
    if "IndexError" in (ab, ba):
        return
    if ab != ba:
        raise symx.Violation(
            f"connects_nodes depends on the argument order: {ab} vs {ba}",
            {"combo": combo, "class": "connects_nodes asymmetric", "nodes": [a.name, b.name], "model": eng.model()},
        )
    if a is n1 and b is n2 and ab is not True:
        raise symx.Violation("the tunnel does not connect its own end points", {"combo": combo, "class": "endpoints not connected"})


def _factory():
    return _make()


def replay(data: dict[str, Any]) -> tuple[bool, str]:
    """Concrete run of the same combination with plain strings."""
    from avocado_i2n.vmnet.node import VMNode
    from avocado_i2n.vmnet.tunnel import VMTunnel

    combo = data["combo"]
    _fresh_class_state()
    _build_previous(combo.get("previous", 0))
    nodes = _concrete_nodes(combo["ifaces"])
    local1 = {"type": combo["local"], "nic": "lan_nic", "lnet": "172.16.0.0", "lmask": "255.255.0.0", "rnet": "172.17.0.0", "rmask": "255.255.255.0"}
    remote1 = {"type": combo["remote"], "nic": "lan_nic", "modeconfig_ip": "172.30.0.1"}
    peer1 = {"type": combo["peer"], "nic": "internet_nic"}
    lid = "" if combo.get("left_id_empty") else "arnold@left"
    rid = "" if combo.get("right_id_empty", True) else "server@right"
    auth = None if combo["auth"] is None else {"type": combo["auth"], "psk": "secret", "left_id": lid, "right_id": rid}
    valid = "bogus" not in (combo["local"], combo["remote"], combo["peer"], combo["auth"])
    try:
        tun = VMTunnel("vpn1", nodes[0], nodes[1], local1, remote1, peer1, auth)
    except ValueError as e:
        return (valid, f"ValueError: {e}")
    except KeyError as e:
        return (True, f"KeyError: {e}")
    if not valid:
        return True, "unsupported type accepted"
    L, R = tun.left_params, tun.right_params
    problems = []
    lt, rt = combo["local"], combo["remote"]
    if lt == "nic" and (L.get("vpnconn_lan_net") != R.get("vpnconn_remote_net") or L.get("vpnconn_lan_net") != "10.10.0.0"):
        problems.append("left lan / right remote net")
    if rt == "custom" and L.get("vpnconn_remote_net") != R.get("vpnconn_lan_net"):
        problems.append("left remote / right lan net")
    if rt == "custom" and lt != "custom" and R.get("vpnconn_lan_net") != "10.20.0.0":
        problems.append("right lan net")
    if rt == "custom" and L.get("vpnconn_remote_netmask") != R.get("vpnconn_lan_netmask"):
        problems.append(f"left remote netmask {L.get('vpnconn_remote_netmask')} / right lan netmask {R.get('vpnconn_lan_netmask')}")
    if lt == "nic" and L.get("vpnconn_lan_netmask") != R.get("vpnconn_remote_netmask"):
        problems.append(f"left lan netmask {L.get('vpnconn_lan_netmask')} / right remote netmask {R.get('vpnconn_remote_netmask')}")
    if lt == "custom" and rt == "custom":
        if (L.get("vpnconn_lan_net"), L.get("vpnconn_lan_netmask")) != ("172.16.0.0", "255.255.0.0"):
            problems.append("left lan is not the custom lnet/lmask")
        if (R.get("vpnconn_lan_net"), R.get("vpnconn_lan_netmask")) != ("172.17.0.0", "255.255.255.0"):
            problems.append("right lan is not the custom rnet/rmask")
        if (tun.right_net.net_ip, tun.right_net.netmask) != ("172.17.0.0", "255.255.255.0") or (tun.left_net.net_ip, tun.left_net.netmask) != ("172.16.0.0", "255.255.0.0"):
            problems.append(f"tunnel networks {tun.left_net.net_ip}/{tun.left_net.netmask} - {tun.right_net.net_ip}/{tun.right_net.netmask} are not the custom ones")
    if combo["peer"] == "ip" and L.get("vpnconn_peer_ip") != nodes[1].interfaces[nodes[1].params["internet_nic"]].ip:
        problems.append("left peer ip")
    if R.get("vpnconn_peer_ip") != nodes[0].interfaces[nodes[0].params["internet_nic"]].ip:
        problems.append("right peer ip")
    want_r_lan = {"custom": "CUSTOM" if lt == "custom" else "NIC", "externalip": "INTERNETIP", "modeconfig": "NIC"}[rt]
    want_r_remote = {"nic": "CUSTOM", "internetip": "EXTERNALIP", "custom": "CUSTOM"}[lt]
    if R.get("vpnconn_lan_type") != want_r_lan or R.get("vpnconn_remote_type") != want_r_remote:
        problems.append("right types")
    if combo["auth"] == "psk":
        if (L.get("vpnconn_psk_own_id"), L.get("vpnconn_psk_foreign_id")) != (R.get("vpnconn_psk_foreign_id"), R.get("vpnconn_psk_own_id")):
            problems.append("psk ids not swapped")
        tl, tr = ("IP" if lid == "" else "CUSTOM"), ("IP" if rid == "" else "CUSTOM")
        want = {"L": (lid, tl, rid, tr), "R": (rid, tr, lid, tl)}
        for side, prm in (("L", L), ("R", R)):
            got = (prm.get("vpnconn_psk_own_id"), prm.get("vpnconn_psk_own_id_type"), prm.get("vpnconn_psk_foreign_id"), prm.get("vpnconn_psk_foreign_id_type"))
            if got != want[side]:
                problems.append(f"psk id / type on {side}: {got} expected {want[side]}")
    want_key = {None: "NONE", "none": "NONE", "pubkey": "PUBLIC", "psk": "PSK"}[combo["auth"]]
    if L.get("vpnconn_key_type") != want_key or R.get("vpnconn_key_type") != want_key:
        problems.append("key type")
    if data.get("class") == "connects_nodes asymmetric":
        return False, "asymmetry needs the symbolic netconfig predicates; not replayable concretely"
    return (bool(problems), "; ".join(problems) or "parameters mirror each other")


def run(ctx: common.Context) -> None:
    ctx.bounds = {"local": LOCALS + ["<unsupported>"], "remote": REMOTES + ["<unsupported>"], "peer": PEERS + ["<unsupported>"], "auth": ["None", "none", "pubkey", "psk", "<unsupported>"], "interfaces_per_node": "1..2 (nic roles may alias)", "psk_ids": "empty or arbitrary", "connects_nodes": "3 nodes, membership predicates symbolic incl. raising"}
    ctx.assumptions = [
        "vm platform and interfaces are stubs carrying uninterpreted address/net atoms; VMNode, VMNetconfig, Params are the real classes",
        "for connects_nodes the two tunnel netconfigs are replaced by stubs whose has_interface/can_add_interface are solver variables",
    ]
    exhausted, stats, collected, err = symx.explore_parallel(_factory, seed=ctx.seed, split_depth=4, deadline=ctx.deadline(150, 900))
    ctx.add_stats(stats)
    counters = common.merge_collected(ctx, collected)
    ctx.part("tunnel", exhausted=exhausted, paths=stats.paths, counters=counters)
    if err:
        ctx.note_inconclusive(err)
    if not exhausted:
        ctx.exhaustive = False
    if counters.get("tunnels", 0) == 0 or counters.get("rejected_unsupported", 0) == 0:
        ctx.note_inconclusive("vacuous: no tunnel constructed or no unsupported type rejected")
    for c in collected:
        for what, cls, detail in c.violations:
            d = dict(detail)
            site = f"{d.get('combo', {}).get('local')}/{d.get('combo', {}).get('remote')}" if "net" in cls or "type" in cls else ""
            ctx.report(f"C19 VMTunnel {cls} {site}".strip(), what + f" for {d.get('combo')}", d, replay if cls != "connects_nodes asymmetric" else None)
    ctx.coverage["explanation"] = "symbolic execution of the real VMTunnel constructor and connects_nodes over uninterpreted atoms; parameters compared with the documented counterpart table by z3 validity queries, all type combinations enumerated by the explorer"

"""
C09 - workers get equivalent linked graph copies; lazy and eager parsing agree.

(a) every lazily expanded graph reached under explored schedules is compared with the
    eagerly parsed graph of the same selection (dependencies of every expanded test, and
    every selected compatible test expanded by some worker);
(b) per-worker copies: symmetric bridging, the four visit registers shared and distinct;
(c) bridging protocol with a solver-chosen order of node arrival / bridge lists /
    interleaved registrations on real equivalent nodes;
(d) parsing the same input twice gives the same graph.
"""

from __future__ import annotations

from typing import Any

from engine import symx
from . import common, structure, trav, trav_plans, travcheck
from .monitors import _short

_eager_cache: dict[str, Any] = {}


def eager_signature(scenario: trav.Scenario) -> dict[str, Any]:
    key = scenario.restriction + "|" + scenario.nets + "|" + repr(sorted(scenario.params.items()))
    if key not in _eager_cache:
        sc = trav.Scenario(scenario.name + "-eager", scenario.restriction, scenario.nets, lazy=False, vm_strs=scenario.vm_strs, params=scenario.params, vms=scenario.vms)
        saved = trav.CUR
        from avocado_i2n.cartgraph import TestSwarm

        from avocado_i2n import params_parser

        swarms = TestSwarm.run_swarms
        graphs = []
        try:
            graphs.append(sc.build())
        except params_parser.EmptyCartesianProduct:
            # a worker whose restrictions exclude the selection cannot be parsed up front: one graph per compatible worker
            for net in scenario.nets.split():
                one = trav.Scenario(sc.name + net, scenario.restriction, net, lazy=False, vm_strs=scenario.vm_strs, params=scenario.params, vms=scenario.vms)
                try:
                    graphs.append(one.build())
                except params_parser.EmptyCartesianProduct:
                    pass
        TestSwarm.run_swarms = swarms
        trav.CUR = saved
        leaves = set()
        sig: dict[str, Any] = {}
        for graph in graphs:
            for n in graph.nodes:
                if not n.is_flat() and not n.is_shared_root() and len(n.cloned_nodes) == 0 and len(n.cleanup_nodes) == 0:
                    leaves.add(trav.bridged_name(n))
            sig.update(structure.signature(graph))
        _eager_cache[key] = (sig, leaves)
    return _eager_cache[key]


def lazy_vs_eager(run: Any) -> list[Any]:
    sc = run.scenario
    out = []
    eager_sig, eager_leaves = eager_signature(sc)
    lazy_sig = structure.signature(run.graph)
    for name, desc in lazy_sig.items():
        if name not in eager_sig:
            out.append((f"C09 {sc.name} lazily parsed node unknown to eager parsing", f"{name.split('.vms.')[0]} exists only after lazy expansion", {}))
            continue
        if desc["setup"] != eager_sig[name]["setup"]:
            # a lazily expanded test may still lack parents that only its own worker parses; its own dependencies must be complete once it was executed
            started = any(e["kind"] == "start" and e["node"].setless_form == name for e in run.trace)
            if started or len(desc["setup"]) > len(eager_sig[name]["setup"]):
                out.append((f"C09 {sc.name} lazy dependencies differ", f"{name.split('.vms.')[0]}: lazy {[s[0].split('.vms.')[0] for s in desc['setup']]} vs eager {[s[0].split('.vms.')[0] for s in eager_sig[name]['setup']]}", {}))
        if desc["objects"] != eager_sig[name]["objects"]:
            out.append((f"C09 {sc.name} lazy objects differ", f"{name.split('.vms.')[0]} uses other objects than when parsed up front", {}))
    if run.crash is not None:
        exc = getattr(run.crash, "exc", run.crash)
        out.append((f"C09 {sc.name} lazy expansion crashed {type(exc).__name__}", f"the lazy traversal failed: {run.crash}", {}))
    if run.crash is None:
        lazy_leaves = {trav.bridged_name(n) for n in run.graph.nodes if not n.is_flat() and not n.is_shared_root() and len(n.cloned_nodes) == 0}
        for leaf in eager_leaves:
            if leaf not in lazy_leaves:
                out.append((f"C09 {sc.name} selected test never expanded", f"{_short(leaf)} was not expanded by any worker during the lazy traversal", {}))
        if len(run.graph.workers) == 1:
            # a single worker expands everything: the lazily built graph must be the eager one
            for name in eager_sig:
                if name not in lazy_sig:
                    out.append((f"C09 {sc.name} eagerly parsed node missing after lazy expansion", f"{name.split('.vms.')[0]} is parsed up front but never appears when the single worker expands the graph lazily", {}))
    out += structure.worker_copies(run.graph, sc.name)
    out += structure.visits_kept(run)
    if run.crash is None:
        out += structure.flat_expansions(run.graph, sc.name)
    return out


def plans(tier: str) -> list[dict[str, Any]]:
    P = trav_plans.plan
    out = [
        P("lazy=eager: G2 2 workers", trav.menu("G2"), [lazy_vs_eager], K=1, statuses=["PASS"]),
        P("lazy=eager: G3 2 workers", trav.menu("G3"), [lazy_vs_eager], K=1, statuses=["PASS", "FAIL"], max_nonpass=1, pool_fixed=trav.DEEP_PRESENT),
        P("lazy=eager: G5 restricted worker", trav.menu("G5"), [lazy_vs_eager], K=1, statuses=["PASS"]),
        P("lazy=eager: G10 a test reachable through a nested set and as another test's setup", trav.menu("G10"), [lazy_vs_eager], K=1, statuses=["PASS"], pool_fixed={**trav.DEEP_PRESENT, "linux_virtuser": ["shared"], "windows_virtuser": ["shared"], "connect": ["shared"]}),
        P("lazy=eager: G4h a cloned test and its dependant both selected, 2 workers", trav.menu("G4h"), [lazy_vs_eager], K=1, statuses=["PASS"], pool_fixed={**trav.DEEP_PRESENT, "linux_virtuser": ["shared"], "windows_virtuser": ["shared"], "connect": ["shared"]}),
        P("lazy=eager: G4g a cloned test and its dependant both selected, 1 worker", trav.menu("G4g"), [lazy_vs_eager], K=1, statuses=["PASS"], pool_fixed={**trav.DEEP_PRESENT, "linux_virtuser": ["shared"], "windows_virtuser": ["shared"], "connect": ["shared"]}),
        P("lazy=eager: G4j the dependant selected before the cloned test, 1 worker", trav.menu("G4j"), [lazy_vs_eager], K=1, statuses=["PASS"], pool_fixed={**trav.DEEP_PRESENT, "linux_virtuser": ["shared"], "windows_virtuser": ["shared"], "connect": ["shared"]}),
    ]
    if tier == "thorough":
        out += [
            P("lazy=eager: G4k the dependant selected before the cloned test, 2 workers", trav.menu("G4k"), [lazy_vs_eager], K=1, statuses=["PASS"], pool_fixed={**trav.DEEP_PRESENT, "linux_virtuser": ["shared"], "windows_virtuser": ["shared"], "connect": ["shared"]}),
            P("lazy=eager: G4 cloning", trav.menu("G4"), [lazy_vs_eager], K=1, statuses=["PASS"], pool_fixed={**trav.DEEP_PRESENT, "linux_virtuser": ["shared"], "windows_virtuser": ["shared"]}),
            P("lazy=eager: G2 3 workers", trav.menu("G2x3"), [lazy_vs_eager], K=1, statuses=["PASS", "FAIL"], max_nonpass=1),
            P("lazy=eager: G6 clusters", trav.menu("G6b"), [lazy_vs_eager], K=1, statuses=["PASS"], pool_fixed={"install": ["shared"]}),
            P("lazy=eager: G23 mixed", trav.menu("G23"), [lazy_vs_eager], K=1, statuses=["PASS"], pool_fixed=trav.DEEP_PRESENT),
        ]
    return out


replay_trav = travcheck.make_replay(plans)

# ---------------------------------------------------------------------------
# (c) bridging protocol

_bridge = {"N": 3, "regs": 2}


def _bridge_factory():
    col = common.Collector()
    trav.install()

    def fn(eng: symx.Engine) -> Any:
        from avocado_i2n.cartgraph.node import EdgeRegister

        N = _bridge["N"]
        sc = trav.menu("G1", lazy=False, nets=" ".join(f"net{i + 1}" for i in range(N)))
        run = trav.prepare(eng, sc, trav.Config())
        g = run.graph
        copies = sorted([n for n in g.nodes if not n.is_flat() and ".customize." in n.params["shortname"] and "on_customize" not in n.params["shortname"]], key=lambda n: n.params["name"])
        child = {c.params["nets"]: next(iter(c.cleanup_nodes)) for c in copies}
        workers = g.workers
        for c in copies:
            c._bridged_nodes = []
            for r in ("_picked_by_setup_nodes", "_dropped_setup_nodes", "_picked_by_cleanup_nodes", "_dropped_cleanup_nodes"):
                setattr(c, r, EdgeRegister())
        protocol = eng.pick(2, "protocol")  # 0: arrival (parse_branches), 1: all pairs (update tool)
        present: list[Any] = []
        ledger: list[tuple[str, str, str]] = []
        pending = list(copies)
        regs_left = _bridge["regs"]

        def register(node: Any) -> None:
            kind = eng.pick(2, "which_register")
            w = workers[node.params["nets"]]
            ch = child[node.params["nets"]]
            if kind == 0:
                node.drop_child(ch, w)
                ledger.append(("_dropped_cleanup_nodes", ch.bridged_form, w.id))
            else:
                node._picked_by_setup_nodes.register(ch, w)
                ledger.append(("_picked_by_setup_nodes", ch.bridged_form, w.id))

        if protocol == 0:
            while pending:
                nxt = pending.pop(eng.pick(len(pending), "arrives"))
                order = list(present)
                perm = []
                while order:
                    perm.append(order.pop(eng.pick(len(order), "bridge_order")))
                for old in perm:
                    nxt.bridge_with_node(old)
                present.append(nxt)
                while regs_left > 0 and eng.pick(2, "register_now") == 1:
                    regs_left -= 1
                    register(present[eng.pick(len(present), "register_on")])
        else:
            order = list(copies)
            perm = []
            while order:
                perm.append(order.pop(eng.pick(len(order), "node_order")))
            for a in perm:
                for b in perm:
                    if a is not b and a.bridged_form == b.bridged_form:
                        a.bridge_with_node(b)
            present = perm
            for _ in range(regs_left):
                register(present[eng.pick(len(present), "register_on")])
        col.count("protocol_runs")
        # all copies share one set of four distinct registers, linked symmetrically
        for a in copies:
            for b in copies:
                if a is b:
                    continue
                if b not in a.bridged_nodes:
                    raise symx.Violation("equivalent copies not linked", {"class": "C09 bridge protocol unlinked", "decisions": eng.decisions_vector()})
                for r in ("_picked_by_setup_nodes", "_dropped_setup_nodes", "_picked_by_cleanup_nodes", "_dropped_cleanup_nodes"):
                    if getattr(a, r) is not getattr(b, r):
                        raise symx.Violation(f"copies keep separate {r}", {"class": f"C09 bridge protocol separate {r}", "decisions": eng.decisions_vector()})
            if len({id(getattr(a, r)) for r in ("_picked_by_setup_nodes", "_dropped_setup_nodes", "_picked_by_cleanup_nodes", "_dropped_cleanup_nodes")}) != 4:
                raise symx.Violation("two visit registers are the same object", {"class": "C09 bridge protocol aliased registers", "decisions": eng.decisions_vector()})
        # every visit registered through any copy is seen through every copy, in the right register only
        for a in copies:
            for r in ("_picked_by_setup_nodes", "_dropped_setup_nodes", "_picked_by_cleanup_nodes", "_dropped_cleanup_nodes"):
                want = sum(1 for (reg, _n, _w) in ledger if reg == r)
                got = getattr(a, r).get_counters()
                if got != want:
                    raise symx.Violation(f"{r} reports {got} visits through {a.params['nets']}, {want} were registered", {"class": f"C09 bridge protocol lost visits {r}", "decisions": eng.decisions_vector()})
        if len(col.samples) < 2 and ledger:
            col.samples.append({"protocol": ["arrival", "all-pairs"][protocol], "visits": ledger})
        return None

    def on_path(eng: symx.Engine, outcome: str, payload: Any) -> None:
        if outcome == "violation":
            col.violations.append((payload.what, payload.detail["class"], payload.detail))

    def collect() -> Any:
        col.functions = set(common.TRACER.seen)
        return col

    return fn, on_path, collect


def replay_bridge(data: dict[str, Any]) -> tuple[bool, str]:
    fn, _on, _col = _bridge_factory()
    eng = travcheck.ReplayEngine(data["decisions"])
    symx._current = eng
    try:
        fn(eng)
    except symx.Violation as v:
        return True, v.what
    except symx.Abort as a:
        return False, str(a)
    finally:
        symx._current = None
    return False, "protocol ends with shared registers"


def check_twice(ctx: common.Context) -> None:
    """(d) parsing the same input twice yields the same graph; (b) on eager graphs."""
    trav.install()
    names = ["G2", "G3", "G1x3", "G4g", "G4fx3"] + (["G4", "G6b", "G23"] if ctx.thorough else [])
    for name in names:
        sc = trav.menu(name, lazy=False)
        g1 = trav.prepare(symx.Engine(), sc, trav.Config()).graph
        s1 = structure.signature(g1)
        copies = structure.worker_copies(g1, sc.name)
        g2 = trav.prepare(symx.Engine(), sc, trav.Config()).graph
        s2 = structure.signature(g2)
        findings = structure.compare_signatures(s1, s2, sc.name, "parsed twice") + copies
        ctx.obligations += 1
        if not findings:
            ctx.discharged += 1
        for fp, what, detail in findings:
            ctx.report(fp, what, {"twice": name}, replay_twice)
    ctx.part("parsed twice / worker copies (eager)", graphs=names)


def replay_twice(data: dict[str, Any]) -> tuple[bool, str]:
    sc = trav.menu(data["twice"], lazy=False)
    g1 = trav.prepare(symx.Engine(), sc, trav.Config()).graph
    copies = structure.worker_copies(g1, sc.name)
    g2 = trav.prepare(symx.Engine(), sc, trav.Config()).graph
    f = structure.compare_signatures(structure.signature(g1), structure.signature(g2), sc.name, "parsed twice") + copies
    return bool(f), f[0][1] if f else "same graph"


def replay(data: dict[str, Any]) -> tuple[bool, str]:
    if "twice" in data:
        return replay_twice(data)
    if "class" in data and "bridge protocol" in data.get("class", ""):
        return replay_bridge(data)
    return replay_trav(data)


def run(ctx: common.Context) -> None:
    check_twice(ctx)
    _bridge["N"] = 4 if ctx.thorough else 3
    _bridge["regs"] = 2
    exhausted, stats, collected, err = symx.explore_parallel(_bridge_factory, seed=ctx.seed, split_depth=3, deadline=ctx.deadline(60, 400), min_tasks=8)
    ctx.add_stats(stats)
    counters = common.merge_collected(ctx, collected)
    ctx.part("bridging protocol", exhausted=exhausted, paths=stats.paths, counters=counters)
    if err:
        ctx.note_inconclusive(err)
    if not exhausted:
        ctx.exhaustive = False
    for c in collected:
        for what, cls, detail in c.violations:
            ctx.report(cls, what, detail, replay_bridge)
    totals = travcheck.run_plans(ctx, plans(ctx.tier), 100 if not ctx.thorough else 800, replay_trav)
    ctx.bounds = {"bridging_protocol": {"copies": _bridge["N"], "visits": _bridge["regs"], "protocols": ["arrival order + bridge list order (lazy/eager parsing call site)", "all-pairs loop (update tool call site)"]}, **{p["name"]: p["bounds"] for p in plans(ctx.tier)}}
    ctx.assumptions = ["selections: concrete menu of the shipped suite (L1)", "bridging protocol: real equivalent nodes of a parsed graph with their bridges and registers reset"]
    ctx.coverage["counters"] = totals
    ctx.coverage["explanation"] = "every lazily expanded graph reached under solver-chosen schedules compared with the eager graph; bridging protocol explored over solver-chosen orders on real nodes"

"""
C10 - retry, stop, replay and verdict rules are followed exactly.

(a) decision table: the real ``TestNode.should_rerun`` on a real parsed node with
    ``max_tries`` a symbolic integer (one path covers an interval of values), the
    status history solver-chosen, rerun/stop sets from a menu; the sentence of the
    property as a z3 formula, compared by a validity query.
(b) identifiers/own results and (c) replay: monitors on explored traversals.
(d) verdict: the real ``TestRunner.all_results_ok`` against "every name has an
    acceptable result".
"""

from __future__ import annotations

from typing import Any

import z3

from engine import symx
from . import chrun, common, monitors, trav, trav_plans, travcheck

ALL = ["fail", "error", "pass", "warn", "skip", "cancel", "interrupted", "unknown"]
RERUN_FULL = [None, "", "fail error", "fail", "pass warn", "fail error warn pass skip cancel interrupted unknown", "fail bogus", "FAIL", "Fail error"]
STOP_FULL = [None, "", "pass", "fail error", "warn unknown", "nonsense", "PASS"]
RERUN_MENU = [None, "fail error", "pass warn", "fail bogus", "FAIL"]
STOP_MENU = [None, "pass", "fail error", "nonsense", "PASS"]
_cfg = {"max_results": 3, "statuses": ["PASS", "FAIL", "ERROR", "WARN", "SKIP", "UNKNOWN"]}
_nodes: dict[str, Any] = {}


def _get_nodes() -> dict[str, Any]:
    """Real nodes parsed once per process: a stateless leaf and a stateful setup node with a bridged copy."""
    if not _nodes:
        trav.install()
        run = trav.prepare(symx.Engine(), trav.menu("G1", lazy=False), trav.Config())
        g = run.graph
        for n in g.nodes:
            if n.is_shared_root() or n.is_flat():
                continue
            sn = n.params["shortname"]
            if "net1" in n.params["name"].split("."):
                if "tutorial1" in sn:
                    _nodes["leaf"] = n
                elif ".customize." in sn and "on_customize" not in sn:
                    _nodes["setup"] = n
        _nodes["graph"] = g
        _nodes["worker"] = g.workers["net1"]
        _nodes["other"] = g.workers["net2"]
    return _nodes


def _table_factory():
    col = common.Collector()

    def fn(eng: symx.Engine) -> Any:
        nodes = _get_nodes()
        kind = ("leaf", "setup")[eng.pick(2, "node_kind")]
        node = nodes[kind]
        worker = nodes["worker"]
        replay = eng.pick(2, "replay") == 1
        rerun = RERUN_MENU[eng.pick(len(RERUN_MENU), "rerun_set")]
        stop = STOP_MENU[eng.pick(len(STOP_MENU), "stop_set")]
        mt_kind = eng.pick(4, "max_tries_kind")  # 0: symbolic int, 1: unset, 2: "3.5", 3: "hey"
        bad_words = bool(set((rerun or "").split() + (stop or "").split()) - set(ALL))
        simple = bad_words or mt_kind in (2, 3)
        dry = (eng.pick(2, "dry") == 1) if (rerun is None and stop is None and mt_kind == 1) else False
        if simple or dry:
            # rejected / short-circuited settings: the history does not matter, one representative
            n_results = eng.pick(2, "n_results_simple")
            statuses = ["FAIL"] * n_results
            own_n = n_results
        else:
            n_results = symx.choose(_cfg["max_results"] + 1, "n_results")
            statuses = [_cfg["statuses"][symx.choose(len(_cfg["statuses"]), f"status{i}")] for i in range(n_results)]
            # results are spread over the node and its bridged copy (the other worker's)
            own_n = (0, n_results, 1)[eng.pick(3 if n_results >= 2 else 2, "own_results")] if n_results else 0
        saved_params = node._params_cache
        params = saved_params.copy()
        node._params_cache = params
        bridged = node.bridged_nodes[0]
        saved = (node.results, bridged.results, node.started_worker)
        try:
            for k in ("max_tries", "rerun_status", "stop_status", "replay", "dry_run"):
                if k in params:
                    del params[k]
            if replay:
                params["replay"] = "job1"
            if rerun is not None:
                params["rerun_status"] = rerun.replace(" ", ",") if replay else rerun
            if stop is not None:
                params["stop_status"] = stop
            if dry:
                params["dry_run"] = "yes"
            m = None
            if mt_kind == 0:
                m = symx.sym_int("max_tries", -2, 6)
                params["max_tries"] = m
            elif mt_kind == 2:
                params["max_tries"] = "3.5"
            elif mt_kind == 3:
                params["max_tries"] = "hey"
            name = node.params["name"]
            oname = bridged.params["name"]
            node.results = [{"name": name, "status": s} for s in statuses[:own_n]]
            bridged.results = [{"name": oname, "status": s} for s in statuses[own_n:]]
            node.started_worker = None
            # ---- the real code
            raised = None
            got: Any = None
            try:
                got = node.should_rerun(worker)
            except ValueError as e:
                raised = e
            # ---- the specification
            low = [s.lower() for s in statuses]
            rerun_set = (rerun.split() if rerun else (["fail", "error", "warn"] if replay and rerun is None else (ALL if not rerun else []))) if True else []
            if replay and rerun == "":
                rerun_set = []  # explicitly empty in replay mode: nothing may be rerun
            if not replay and not rerun:
                rerun_set = ALL
            stop_set = stop.split() if stop else []
            invalid = bool(set(rerun_set) - set(ALL)) or bool(set(stop_set) - set(ALL)) or mt_kind in (2, 3)
            col.count("decisions")
            desc = {"node": kind, "replay": replay, "rerun_status": rerun, "stop_status": stop, "max_tries": {0: "symbolic", 1: "unset", 2: "3.5", 3: "hey"}[mt_kind], "dry_run": dry, "statuses": statuses, "own": own_n}
            if dry:
                if raised is not None or got is not False:
                    raise symx.Violation("a dry run must never rerun", {"case": desc, "class": "dry run"})
                return None
            if invalid:
                if raised is None:
                    raise symx.Violation(f"invalid retry setting accepted (returned {got})", {"case": desc, "class": "invalid setting accepted"})
                col.count("rejected_invalid")
                return None
            ok_statuses = set(low) <= set(rerun_set) and not (set(low) & set(stop_set))
            if m is None:
                default = 2 if replay else 1
                want = default >= 2 and len(low) < default and ok_statuses
                if raised is not None or bool(got) != want:
                    raise symx.Violation(f"default max_tries: should_rerun={got} raised={raised}, expected {want}", {"case": desc, "class": "decision with default max_tries"})
                return None
            # symbolic max_tries: negative must raise; otherwise the sentence of the property
            if raised is not None:
                if not eng.prove(m.z < 0, "ValueError only for negative max_tries"):
                    desc["max_tries"] = eng.last_model.eval(m.z, model_completion=True).as_long()
                    raise symx.Violation("ValueError raised for a valid max_tries", {"case": desc, "class": "valid setting rejected"})
                col.count("rejected_invalid")
                return None
            want_z = z3.And(m.z >= 2, z3.IntVal(len(low)) < m.z, z3.BoolVal(ok_statuses))
            got_z = got.z if isinstance(got, symx.SymBool) else z3.BoolVal(bool(got))
            if not eng.prove(z3.And(m.z >= 0, got_z == want_z), "should_rerun == tries remain and statuses allow"):
                desc["max_tries"] = eng.last_model.eval(m.z, model_completion=True).as_long()
                raise symx.Violation(f"should_rerun={got} disagrees with the retry rule for max_tries={desc['max_tries']}", {"case": desc, "class": "decision table"})
            if bool(got) if not isinstance(got, symx.SymBool) else False:
                col.count("rerun_true")
            if len(col.samples) < 3 and n_results >= 2:
                col.samples.append(desc)
            return None
        finally:
            node._params_cache = saved_params
            node.results, bridged.results, node.started_worker = saved

    def on_path(eng: symx.Engine, outcome: str, payload: Any) -> None:
        if outcome == "violation":
            col.violations.append((payload.what, payload.detail["class"], payload.detail))

    def collect() -> Any:
        col.functions = set(common.TRACER.seen)
        return col

    return fn, on_path, collect


def replay_table(data: dict[str, Any]) -> tuple[bool, str]:
    """Concrete re-run of one decision-table case on the real node."""
    case = data["case"]
    nodes = _get_nodes()
    node = nodes[case["node"]]
    worker = nodes["worker"]
    saved_params = node._params_cache
    params = saved_params.copy()
    node._params_cache = params
    bridged = node.bridged_nodes[0]
    saved = (node.results, bridged.results, node.started_worker)
    try:
        for k in ("max_tries", "rerun_status", "stop_status", "replay", "dry_run"):
            if k in params:
                del params[k]
        replay = case["replay"]
        if replay:
            params["replay"] = "job1"
        if case["rerun_status"] is not None:
            params["rerun_status"] = case["rerun_status"].replace(" ", ",") if replay else case["rerun_status"]
        if case["stop_status"] is not None:
            params["stop_status"] = case["stop_status"]
        if case["dry_run"]:
            params["dry_run"] = "yes"
        mt = case["max_tries"]
        if mt not in ("unset", "symbolic"):
            params["max_tries"] = str(mt)
        statuses = case["statuses"]
        node.results = [{"name": node.params["name"], "status": s} for s in statuses[: case["own"]]]
        bridged.results = [{"name": bridged.params["name"], "status": s} for s in statuses[case["own"]:]]
        node.started_worker = None
        try:
            got: Any = node.should_rerun(worker)
            raised = None
        except ValueError as e:
            got, raised = None, e
        low = [s.lower() for s in statuses]
        rerun = case["rerun_status"]
        if replay:
            rerun_set = ["fail", "error", "warn"] if rerun is None else rerun.split()
        else:
            rerun_set = rerun.split() if rerun else ALL
        stop_set = case["stop_status"].split() if case["stop_status"] else []
        invalid = bool(set(rerun_set) - set(ALL)) or bool(set(stop_set) - set(ALL)) or mt in ("3.5", "hey") or (isinstance(mt, int) and mt < 0)
        if case["dry_run"]:
            return (raised is not None or got is not False), f"dry run: got {got} raised {raised}"
        if invalid:
            return (raised is None), f"invalid setting: got {got} raised {raised}"
        m = (2 if replay else 1) if mt == "unset" else int(mt)
        want = m >= 2 and len(low) < m and set(low) <= set(rerun_set) and not (set(low) & set(stop_set))
        return (raised is not None or bool(got) != want), f"should_rerun={got} raised={raised} expected={want}"
    finally:
        node._params_cache = saved_params
        node.results, bridged.results, node.started_worker = saved


# ---------------------------------------------------------------------------
# (d) verdict

AVOCADO = ["PASS", "FAIL", "ERROR", "WARN", "SKIP", "CANCEL", "INTERRUPTED"]
GOOD = {"PASS", "WARN", "SKIP", "CANCEL"}
_vcfg = {"max_entries": 4}


def _verdict(entries: list[tuple[int, str]]) -> bool:
    from unittest import mock

    from avocado_i2n.plugins.runner import TestRunner

    runner = TestRunner()
    runner.job = mock.MagicMock()
    runner.job.result.tests = [{"name": trav._MockID(f"{i}", f"test{n}"), "status": s} for i, (n, s) in enumerate(entries)]
    return runner.all_results_ok()


def _verdict_factory():
    col = common.Collector()

    def fn(eng: symx.Engine) -> Any:
        n = symx.choose(_vcfg["max_entries"] + 1, "n_entries")
        entries = []
        for i in range(n):
            name = symx.choose(2, f"name{i}")
            status = AVOCADO[symx.choose(len(AVOCADO), f"vstatus{i}")]
            entries.append((name, status))
        got = _verdict(entries)
        names = {nm for nm, _ in entries}
        want = all(any(s in GOOD for nm2, s in entries if nm2 == nm) for nm in names)
        col.count("verdicts")
        if want:
            col.count("verdict_true")
        if len(col.samples) < 2 and n >= 3:
            col.samples.append({"results": entries, "verdict": got})
        if got != want:
            raise symx.Violation(f"verdict {got} for results {entries}, expected {want}", {"entries": entries, "class": "verdict"})
        return None

    def on_path(eng: symx.Engine, outcome: str, payload: Any) -> None:
        if outcome == "violation":
            col.violations.append((payload.what, payload.detail["class"], payload.detail))

    def collect() -> Any:
        col.functions = set(common.TRACER.seen)
        return col

    return fn, on_path, collect


def replay_verdict(data: dict[str, Any]) -> tuple[bool, str]:
    entries = [tuple(e) for e in data["entries"]]
    got = _verdict(entries)
    names = {nm for nm, _ in entries}
    want = all(any(s in GOOD for nm2, s in entries if nm2 == nm) for nm in names)
    return got != want, f"all_results_ok={got}, expected {want}"


# ---------------------------------------------------------------------------
# (b), (c): traversal plans


def ids_monitor(run: Any) -> list[monitors.Finding]:
    out = monitors.c10_ids(run)
    sc = run.scenario.name
    # each execution's own outcome is what the node recorded, in order
    per_node: dict[int, list[dict[str, Any]]] = {}
    for ev in run.trace:
        if ev["kind"] == "start":
            per_node.setdefault(id(ev["node"]), []).append(ev)
    for evs in per_node.values():
        node = evs[0]["node"]
        if node.prefix.startswith("0") and node not in run.graph.nodes:
            continue  # throwaway configuration node
        chosen = ["ERROR" if e.get("status") == "NONE" else e.get("status") for e in evs if e.get("status") is not None]
        recorded = [r["status"] for r in node.results if r.get("_previous") is None][-len(chosen):] if chosen else []
        norm = [("PASS" if r == "WARN" and c == "PASS" else r) for r, c in zip(recorded, chosen)]
        if norm != chosen[: len(norm)] or len(recorded) < len(chosen):
            out.append((f"C10 {sc} recorded results differ", f"{node.params['shortname']}: executions ended {chosen} but the node recorded {recorded}", {}))
    return out


def replay_monitor(run: Any) -> list[monitors.Finding]:
    """With replay=<job>: acceptable previous result and states present => not executed; otherwise executed."""
    out: list[monitors.Finding] = []
    sc = run.scenario.name
    prev = getattr(run, "previous_by_bridged", {})
    started = {}
    for ev in run.trace:
        if ev["kind"] == "start":
            started.setdefault(ev["bridged"], []).append(ev)
    rerun_set = {"fail", "error", "warn"}
    for node in run.graph.nodes:
        if node.is_flat() or node.is_shared_root() or len(node.cloned_nodes) > 0 or node.is_object_root():
            continue
        b = trav.bridged_name(node)
        if "net1" not in node.params["name"].split("."):
            continue
        p = prev.get(b)
        stateful = bool(trav.produced_states(node))
        runs = started.get(b, [])
        if p is None:
            continue
        acceptable = p.lower() not in rerun_set
        if acceptable and not stateful and runs:
            out.append((f"C10 {sc} replay reruns acceptable test", f"{monitors._short(b)} had the acceptable previous result {p} but was executed again", {}))
        if not acceptable and not runs:
            # legitimately skipped only if an ancestor failure made it pointless? no: the rule is unconditional
            out.append((f"C10 {sc} replay skips unacceptable test", f"{monitors._short(b)} had the previous result {p} and was not executed again", {}))
        if acceptable and stateful:
            # executed again exactly if a state it produces is missing (judged on the store, not on the code's own scan)
            wid = node.params["nets"]
            keys = [k for k in trav.produced_states(node) if k[1] not in trav.ROOT_STATES]
            if runs:
                first = runs[0]
                checks = [e for e in run.trace if e["kind"] == "door" and e["action"] == "check" and e.get("node_bridged") == b and e["idx"] < first["idx"]]
                if checks and all(checks[0]["answers"]):
                    out.append((f"C10 {sc} replay reruns available setup", f"{monitors._short(b)} had the previous result {p} and all its states, but was executed again", {}))
            else:
                absent = [k for k in keys if not run.present_for(wid, k, ["shared"])]
                if absent:
                    out.append((f"C10 {sc} replay skips missing setup", f"{monitors._short(b)} had the previous result {p}, its state {absent[0][1]} is missing, and it was not executed again", {}))
    return out


def retry_count_monitor(run: Any) -> list[monitors.Finding]:
    """Single worker: every test is executed again exactly while tries remain and the rerun/stop sets allow it."""
    out: list[monitors.Finding] = []
    sc = run.scenario
    if run.crash is not None:
        return [(f"C10 {sc.name} crash", f"traversal failed: {run.crash}", {})]
    m = int(sc.params.get("max_tries", 1))
    rerun = (sc.params.get("rerun_status") or " ".join(ALL)).split()
    stop = (sc.params.get("stop_status") or "").split()
    groups: dict[str, list[dict[str, Any]]] = {}
    for ev in run.trace:
        if ev["kind"] == "start":
            groups.setdefault(monitors.creation_group(ev), []).append(ev)
    for name, evs in groups.items():
        # tries of an object creation: every install run and every failed configuration step
        if name.startswith("create:"):
            tries = [e for e in evs if not e["prefix"].startswith("0") or e.get("status") in ("FAIL", "ERROR", "NONE")]
        else:
            tries = evs
        statuses = [("error" if e.get("status") == "NONE" else str(e.get("status")).lower()) for e in tries]
        want = 0
        for k in range(0, m + 1):
            seen = statuses[:k]
            if k == 0:
                want = 1
                continue
            if k >= len(statuses) + 1:
                break
            go_on = m >= 2 and k < m and set(seen) <= set(rerun) and not (set(seen) & set(stop))
            want = k + 1 if go_on else k
            if not go_on:
                break
        want = min(want, max(m, 1))
        if len(statuses) != want:
            out.append((f"C10 {sc.name} number of tries", f"{monitors._short(evs[0]['bridged'])} was tried {len(statuses)} times with outcomes {statuses}; max_tries={m}, rerun={'all' if len(rerun) == 8 else rerun}, stop={stop or 'none'} give {want}", {}))
    return out


def _setup_previous(run: Any) -> None:
    """Solver-chosen previous job results per (bridged) test, attributed to worker net1."""
    eng = run.eng
    run.previous_by_bridged = {}
    prev = []
    for node in run.graph.nodes:
        if node.is_flat() or node.is_shared_root() or len(node.cloned_nodes) > 0:
            continue
        if "net1" not in node.params["name"].split("."):
            continue
        if node.is_object_root():
            continue
        choice = ("-", "PASS", "FAIL")[symx.choose(3, f"previous:{monitors._short(trav.bridged_name(node))}")]
        if choice != "-":
            prev.append({"name": node.params["name"], "status": choice, "time_elapsed": "1"})
            run.previous_by_bridged[trav.bridged_name(node)] = choice
    run.runner.previous_results = prev


def plans(tier: str) -> list[dict[str, Any]]:
    P = trav_plans.plan
    out = [
        P("ids: G1 2 workers max_tries=3", trav.menu("G1", params={"max_tries": "3"}, label="G1-tries3"), [ids_monitor], K=1, statuses=["PASS", "FAIL", "NONE"], max_nonpass=2),
        P("own results: G1 2 workers, result records arriving late", trav.menu("G1"), [ids_monitor], K=1, statuses=["PASS", "LATE:PASS", "LATE:FAIL"], max_nonpass=2, pool_fixed={"install": ["shared"]}),
        P("ids: G2 2 workers max_tries=2", trav.menu("G2", params={"max_tries": "2", "stop_status": "pass"}, label="G2-tries2-stop"), [ids_monitor], K=1, statuses=["PASS", "FAIL"], max_nonpass=2),
        P("own results: G1 1 worker max_tries=3 stop on fail, tries of different recorded durations", trav.menu("G1x1", params={"max_tries": "3", "stop_status": "fail"}, label="G1x1-elapsed"), [ids_monitor, retry_count_monitor], K=1, statuses=["PASS", "FAIL"], max_nonpass=1, elapsed_options=["1", "2"], pool_fixed=trav.DEEP_PRESENT),
        P("tries: G1 1 worker max_tries=3, any two failures", trav.menu("G1x1", params={"max_tries": "3"}, label="G1x1-tries3"), [retry_count_monitor], K=1, statuses=["PASS", "FAIL"], max_nonpass=2),
        P("tries: G1 1 worker max_tries=3 stop on pass", trav.menu("G1x1", params={"max_tries": "3", "stop_status": "pass"}, label="G1x1-tries3-stop"), [retry_count_monitor], K=1, statuses=["PASS", "FAIL"], max_nonpass=2),
        P("replay: G1 1 worker, previous results symbolic", trav.menu("G1x1", lazy=False, params={"replay": "job1"}, label="G1-replay"), [replay_monitor], K=1, statuses=["PASS"], pool_bits="shared", pool_states=["customize", "on_customize"], pool_fixed={"install": ["shared"]}, setup=_setup_previous),
    ]
    if tier == "thorough":
        out += [
            P("ids: G3 2 workers max_tries=3", trav.menu("G3", params={"max_tries": "3"}, label="G3-tries3"), [ids_monitor], K=1, statuses=["PASS", "FAIL", "WARN"], max_nonpass=2, pool_fixed=trav.DEEP_PRESENT),
            P("replay: G2 2 workers", trav.menu("G2", lazy=False, params={"replay": "job1"}, label="G2-replay"), [replay_monitor], K=1, statuses=["PASS", "FAIL"], max_nonpass=1, pool_bits="shared", pool_states=["customize"], pool_fixed={"install": ["shared"]}, setup=_setup_previous),
        ]
    return out


replay_trav = travcheck.make_replay(plans)


def replay(data: dict[str, Any]) -> tuple[bool, str]:
    if "case" in data:
        return replay_table(data)
    if "entries" in data:
        return replay_verdict(data)
    return replay_trav(data)


def run(ctx: common.Context) -> None:
    global RERUN_MENU, STOP_MENU
    _cfg["max_results"] = 4 if ctx.thorough else 3
    _cfg["statuses"] = ["PASS", "FAIL", "ERROR", "WARN", "SKIP", "CANCEL", "INTERRUPTED", "UNKNOWN"] if ctx.thorough else ["PASS", "FAIL", "WARN", "UNKNOWN"]
    _vcfg["max_entries"] = 4 if ctx.thorough else 3
    if ctx.thorough:
        RERUN_MENU, STOP_MENU = RERUN_FULL, STOP_FULL
    for name, factory, rep in (("decision_table", _table_factory, replay_table), ("verdict", _verdict_factory, replay_verdict)):
        exhausted, stats, collected, err = symx.explore_parallel(factory, seed=ctx.seed, split_depth=5, deadline=ctx.deadline(70, 500))
        ctx.add_stats(stats)
        counters = common.merge_collected(ctx, collected)
        ctx.part(name, exhausted=exhausted, paths=stats.paths, counters=counters)
        if err:
            ctx.note_inconclusive(f"{name}: {err}")
        if not exhausted:
            ctx.exhaustive = False
        for c in collected:
            for what, cls, detail in c.violations:
                ctx.report(f"C10 {name} {cls}", what + f" [{detail.get('case', detail.get('entries'))}]", detail, rep)
        if name == "decision_table" and (counters.get("rerun_true", 0) == 0 or counters.get("rejected_invalid", 0) == 0):
            ctx.note_inconclusive("vacuous decision table: no rerun=True or no rejected setting")
    totals = travcheck.run_plans(ctx, plans(ctx.tier), 110 if not ctx.thorough else 900, replay_trav)
    ctx.bounds = {"decision_table": {"max_tries": "symbolic integer in [-2, 6], unset, '3.5', 'hey'", "results": f"<= {_cfg['max_results']} over {_cfg['statuses']}, split between the node and its bridged copy", "rerun_status": RERUN_MENU, "stop_status": STOP_MENU, "replay": [False, True], "node": ["stateless leaf", "stateful setup"]}, "verdict": {"entries": f"<= {_vcfg['max_entries']}", "names": 2, "statuses": AVOCADO}, **{p["name"]: p["bounds"] for p in plans(ctx.tier)}}
    ctx.assumptions = ["decision table: results/params of a real parsed node are overwritten in place (restored afterwards)", "traversal parts: see C01-C05 assumptions (seams, store model, choice-mode scheduling)"]
    ctx.coverage["counters"] = totals
    ctx.coverage["explanation"] = "symbolic max_tries through the real should_rerun with the property's sentence as a z3 formula (validity query per path); exhaustive solver-driven enumeration of result lists for the verdict; traversal monitors for identifiers, own results and replay"
    if ctx.thorough:
        chrun.run_crosshair(ctx, "ch_c10.py", per_condition_timeout=90)

"""Structural oracles on parsed graphs (C06, C09)."""

from __future__ import annotations

from typing import Any

from . import trav
from .monitors import Finding, _short


def node_label(n: Any) -> str:
    return n.params["name"]


def wellformed(graph: Any, scenario: str, expanded: bool = True) -> list[Finding]:
    out: list[Finding] = []
    nodes = list(graph.nodes)
    # unique identities
    ids: dict[str, Any] = {}
    for n in nodes:
        if n.id in ids and ids[n.id] is not n:
            out.append((f"C06 {scenario} duplicate node identity", f"two nodes share the identity {n.id}", {}))
        ids[n.id] = n
    # one shared root
    roots = [n for n in nodes if n.is_shared_root()]
    if len(roots) != 1:
        out.append((f"C06 {scenario} shared roots {len(roots)}", f"{len(roots)} starting nodes", {}))
        return out
    root = roots[0]
    # both ends record every dependency, same object sets
    for n in nodes:
        for p, objs in n.setup_nodes.items():
            if n not in p.cleanup_nodes or p.cleanup_nodes[n] != objs:
                out.append((f"C06 {scenario} one-sided dependency", f"{n.params['shortname']} depends on {p.params['shortname']} but the parent does not list it (or with other objects)", {}))
            if p not in nodes:
                out.append((f"C06 {scenario} dangling parent", f"{n.params['shortname']} depends on a node outside the graph: {p.params['shortname']}", {}))
        for c, objs in n.cleanup_nodes.items():
            if n not in c.setup_nodes or c.setup_nodes[n] != objs:
                out.append((f"C06 {scenario} one-sided dependency", f"{n.params['shortname']} lists the child {c.params['shortname']} which does not depend on it (or with other objects)", {}))
        if n in n.setup_nodes or n in n.cleanup_nodes:
            out.append((f"C06 {scenario} reflexive dependency", f"{n.params['shortname']} depends on itself", {}))
    # acyclic
    color: dict[int, int] = {}

    def visit(n: Any) -> bool:
        stack = [(n, iter(list(n.cleanup_nodes)))]
        color[id(n)] = 1
        while stack:
            cur, it = stack[-1]
            try:
                c = next(it)
            except StopIteration:
                color[id(cur)] = 2
                stack.pop()
                continue
            st = color.get(id(c), 0)
            if st == 1:
                return False
            if st == 0:
                color[id(c)] = 1
                stack.append((c, iter(list(c.cleanup_nodes))))
        return True

    for n in nodes:
        if color.get(id(n), 0) == 0 and not visit(n):
            out.append((f"C06 {scenario} cycle", f"dependency cycle through {n.params['shortname']}", {}))
            break
    # everything reachable from the root
    seen = {id(root)}
    todo = [root]
    while todo:
        cur = todo.pop()
        for c in cur.cleanup_nodes:
            if id(c) not in seen:
                seen.add(id(c))
                todo.append(c)
    for n in nodes:
        if id(n) not in seen:
            # flat nodes hang below the root as well; composite leaves hang below flat ones when lazy
            out.append((f"C06 {scenario} unreachable node", f"{n.params['shortname']} ({n.prefix}) is not reachable from the starting node", {}))
    # per node: objects and producers
    for n in nodes:
        if n.is_flat() or n.is_shared_root():
            continue
        nets = [o for o in n.objects if o.key == "nets"]
        if len(nets) != 1 or n.objects[0] is not nets[0]:
            out.append((f"C06 {scenario} net objects", f"{n.params['shortname']} uses {len(nets)} network objects / the net is not its first object", {}))
        want_vms = set(n.params.objects("vms"))
        got_vms = {o.suffix for o in n.objects if o.key == "vms"}
        if want_vms != got_vms:
            out.append((f"C06 {scenario} vm objects", f"{n.params['shortname']} names vms {sorted(want_vms)} but uses {sorted(got_vms)}", {}))
        if len(n.cloned_nodes) > 0:
            w = next(iter(graph.workers.values()))
            try:
                runnable = n.should_run(w) or n.should_clean(w) or n.should_rerun(w)
            except RuntimeError:
                runnable = False
            if runnable:
                out.append((f"C06 {scenario} runnable clone source", f"clone source {n.params['shortname']} is runnable", {}))
            continue
        for p in n.setup_nodes:
            if not p.is_flat() and len(p.cloned_nodes) > 0:
                out.append((f"C06 {scenario} depends on a clone source", f"{n.params['shortname']} depends on the clone source {p.params['shortname']}, which is never run", {}))
        own_net = nets[0].long_suffix if nets else None
        for obj in n.objects:
            if obj.key == "nets":
                continue
            op = obj.object_typed_params(n.params)
            want = op.get("get_state")
            if not want or want in trav.ROOT_STATES:
                continue
            vm = obj if obj.key == "vms" else obj.composites[0]
            if vm.is_permanent():
                continue
            producers = []
            for p, objs in n.setup_nodes.items():
                if p.is_flat() or p.is_shared_root():
                    continue
                if not any(o is obj or o.long_suffix == obj.long_suffix for o in objs):
                    continue
                producers.append(p)
            exact = []
            for p in producers:
                pobj = next((o for o in p.objects if o.long_suffix == obj.long_suffix), None)
                if pobj is None:
                    continue
                st = pobj.object_typed_params(p.params).get("set_state")
                if st == want and trav.vm_variant(pobj) == trav.vm_variant(obj):
                    p_net = next((o.long_suffix for o in p.objects if o.key == "nets"), None)
                    if p_net == own_net:
                        exact.append(p)
            if expanded and len(exact) != 1:
                out.append((f"C06 {scenario} producers of {want}: {len(exact)}", f"{n.params['shortname']} requires {want} of {obj.long_suffix} and has {len(exact)} parent(s) producing exactly it for its worker and variant ({len(producers)} parents via that object)", {}))
    return out


def signature(graph: Any) -> dict[str, Any]:
    """Canonical description of a graph: nodes (by name) with their dependency names and objects."""
    sig = {}
    for n in graph.nodes:
        if n.is_flat() or n.is_shared_root():
            continue
        if len(n.cloned_nodes) > 0:
            continue
        # names modulo the test set prefix: the same test can be parsed through different sets (all.., normal.gui..)
        sig[n.setless_form] = {
            "setup": sorted((p.setless_form, tuple(sorted(o.long_suffix for o in objs))) for p, objs in n.setup_nodes.items() if not p.is_flat()),
            "objects": sorted(o.long_suffix for o in n.objects),
            "states": sorted((k, v) for k, v in n.params.items() if k.startswith("get_state") or k.startswith("set_state")),
        }
    return sig


def compare_signatures(a: dict[str, Any], b: dict[str, Any], scenario: str, what: str, subset: bool = False) -> list[Finding]:
    out: list[Finding] = []
    for name in a:
        if name not in b:
            if not subset:
                out.append((f"C09 {scenario} {what}: node missing", f"{what}: node {name.split('.vms.')[0]} is only in the first graph", {}))
            continue
        if a[name]["setup"] != b[name]["setup"]:
            out.append((f"C09 {scenario} {what}: dependencies differ", f"{what}: {name.split('.vms.')[0]} has dependencies {[s[0].split('.vms.')[0] for s in a[name]['setup']]} vs {[s[0].split('.vms.')[0] for s in b[name]['setup']]}", {}))
        if a[name]["objects"] != b[name]["objects"]:
            out.append((f"C09 {scenario} {what}: objects differ", f"{what}: {name.split('.vms.')[0]} objects differ", {}))
    for name in b:
        if name not in a:
            out.append((f"C09 {scenario} {what}: node missing", f"{what}: node {name.split('.vms.')[0]} is only in the second graph", {}))
    return out


def worker_copies(graph: Any, scenario: str) -> list[Finding]:
    """Per-worker copies are equivalent modulo worker naming; bridging is symmetric and shares the registers."""
    out: list[Finding] = []
    by_bridge: dict[str, list[Any]] = {}
    for n in graph.nodes:
        if n.is_flat() or n.is_shared_root():
            continue
        by_bridge.setdefault(trav.bridged_name(n), []).append(n)
    for name, copies in by_bridge.items():
        for a in copies:
            for b in copies:
                if a is b:
                    continue
                if (b in a.bridged_nodes) != (a in b.bridged_nodes):
                    out.append((f"C09 {scenario} asymmetric bridge", f"{_short(name)}: bridging between worker copies is one-sided", {}))
                if b not in a.bridged_nodes:
                    out.append((f"C09 {scenario} unbridged copies", f"{_short(name)}: equivalent copies of different workers are not linked", {}))
                for reg in ("_picked_by_setup_nodes", "_dropped_setup_nodes", "_picked_by_cleanup_nodes", "_dropped_cleanup_nodes"):
                    if getattr(a, reg) is not getattr(b, reg):
                        out.append((f"C09 {scenario} registers not shared {reg}", f"{_short(name)}: worker copies keep separate {reg} bookkeeping", {}))
                regs = [getattr(a, r) for r in ("_picked_by_setup_nodes", "_dropped_setup_nodes", "_picked_by_cleanup_nodes", "_dropped_cleanup_nodes")]
                if len({id(r) for r in regs}) != 4:
                    out.append((f"C09 {scenario} registers aliased", f"{_short(name)}: two of the four visit registers are the same object", {}))
        for a in copies:
            for x in a.bridged_nodes:
                if trav.bridged_name(x) != name:
                    out.append((f"C09 {scenario} bridged to non-equivalent", f"{_short(name)} is linked to the non-equivalent {_short(trav.bridged_name(x))}", {}))
    # same shape per worker
    per_worker: dict[str, dict[str, Any]] = {}
    for n in graph.nodes:
        if n.is_flat() or n.is_shared_root() or len(n.cloned_nodes) > 0:
            continue
        wid = n.params.get("nets")
        per_worker.setdefault(wid, {})[trav.bridged_name(n)] = sorted(trav.bridged_name(p) for p in n.setup_nodes if not p.is_flat() and not p.is_shared_root())
    return out


REGISTERS = ("_picked_by_setup_nodes", "_dropped_setup_nodes", "_picked_by_cleanup_nodes", "_dropped_cleanup_nodes")


def flat_expansions(graph: Any, scenario: str) -> list[Finding]:
    """A lazily expanded (flat) test leads to the tests of the up-front graph: where the expansion reused a test that
    was split into clones (one per variant of a setup), the flat test leads to the clones and not only to the retired
    source, which keeps the dependencies of the unsplit test and is never run."""
    out: list[Finding] = []
    for flat in graph.nodes:
        if not flat.is_flat() or flat.is_shared_root():
            continue
        children = list(flat.cleanup_nodes)
        for child in children:
            if child.is_flat() or len(child.cloned_nodes) == 0:
                continue
            missing = [c for c in child.cloned_nodes if c not in children]
            if missing:
                out.append((f"C09 {scenario} lazy expansion leads to a retired clone source", f"the lazily expanded {_short(flat.params['name'])} leads to {_short(child.params['name'])}, which was split into {len(child.cloned_nodes)} clones, but not to its clones {[_short(c.params['name']) for c in missing]}: the expanded test keeps the dependencies of the unsplit test instead of those of the complete graph", {}))
    return out


def visits_kept(run: Any) -> list[Finding]:
    """Progress made by one worker is seen by all: a visit once recorded stays in a register some node still uses."""
    out: list[Finding] = []
    live = {id(getattr(n, reg)) for n in run.graph.nodes for reg in REGISTERS}
    for register, about, wid in run.visits:
        if id(register) not in live:
            out.append((f"C09 {run.scenario.name} recorded visits lost", f"the visit of {wid} at {_short(about)} was recorded in a register that no node uses any more (it was replaced when an equivalent copy was linked)", {}))
            break
    return out

"""
C20 - manual steps act once per selected vm and worker, in the given order.

(a) the real ``Manu.run`` with the command line parser and tool loader stubbed and the
    chain steps replaced by stubs whose outcome (None, 0, 1, raises) is solver-chosen:
    every step is called once, in order, with its position tag, and the return code is 1
    exactly when some step failed;
(b) the graphs built by the real ``_parse_and_iterate_for_objects_and_workers`` /
    ``_parse_one_node_for_all_objects_per_worker`` for the state and vm-management steps
    are traversed under solver-chosen schedules: exactly one execution per (selected vm,
    compatible worker) carrying the step's parameters, none for unselected vms.
"""

from __future__ import annotations

from typing import Any

from engine import symx
from . import common, monitors, trav, trav_plans, travcheck

_cfg = {"max_chain": 3}
OUTCOMES = ["none", "zero", "one", "raises", "raises_assertion", "raises_timeout"]
EXC = {"raises": RuntimeError, "raises_assertion": AssertionError, "raises_timeout": TimeoutError}


def _chain_factory():
    col = common.Collector()

    def fn(eng: symx.Engine) -> Any:
        from avocado_i2n import cmd_parser, intertest_setup
        from avocado_i2n.plugins import manu
        from virttest.utils_params import Params

        n = symx.choose(_cfg["max_chain"], "chain_length") + 1
        names = [f"vstep{i}" for i in range(n)]
        # a step may occur twice in a chain
        repeat = eng.pick(2, "repeat_first") == 1 and n > 1
        if repeat:
            names[-1] = names[0]
        outcomes = {}
        calls: list[tuple[str, str]] = []
        for nm in set(names):
            outcomes[nm] = OUTCOMES[symx.choose(len(OUTCOMES), f"outcome_{nm}")]

        def make(nm: str):
            def step(config: Any, tag: str = "") -> Any:
                calls.append((nm, tag))
                o = outcomes[nm]
                if o in EXC:
                    raise EXC[o]("step failed")
                return {"none": None, "zero": 0, "one": 1}[o]

            return step

        saved_cmd, saved_load = cmd_parser.params_from_cmd, intertest_setup.load_addons_tools
        for nm in set(names):
            setattr(intertest_setup, nm, make(nm))

        def fake_params_from_cmd(config: Any) -> None:
            config["vms_params"] = Params({"setup": " ".join(names)})

        cmd_parser.params_from_cmd = fake_params_from_cmd
        intertest_setup.load_addons_tools = lambda: None
        try:
            try:
                rc = manu.Manu().run({"i2n.manu.params": []})
            except (AssertionError, TimeoutError, RuntimeError) as e:
                rc = f"escaped {type(e).__name__}"
        finally:
            cmd_parser.params_from_cmd, intertest_setup.load_addons_tools = saved_cmd, saved_load
            for nm in set(names):
                delattr(intertest_setup, nm)
        col.count("chains")
        desc = {"chain": names, "outcomes": outcomes, "calls": calls, "return_code": rc}
        want_calls = [(nm, f"0m{i}") for i, nm in enumerate(names)]
        if calls != want_calls:
            raise symx.Violation(f"chain {names}: steps called {calls}, expected {want_calls}", {"case": desc, "class": "chain calls"})
        failed = any(outcomes[nm] in ("one",) or outcomes[nm] in EXC for nm in names)
        if (rc == 1) != failed or rc not in (0, 1):
            raise symx.Violation(f"chain {names} with outcomes {outcomes} returned {rc}", {"case": desc, "class": "chain return code"})
        if failed:
            col.count("failed_chains")
        if len(col.samples) < 2 and n > 1:
            col.samples.append(desc)
        return None

    def on_path(eng: symx.Engine, outcome: str, payload: Any) -> None:
        if outcome == "violation":
            col.violations.append((payload.what, payload.detail["class"], payload.detail))

    def collect() -> Any:
        col.functions = set(common.TRACER.seen)
        return col

    return fn, on_path, collect


def replay_chain(data: dict[str, Any]) -> tuple[bool, str]:
    from avocado_i2n import cmd_parser, intertest_setup
    from avocado_i2n.plugins import manu
    from virttest.utils_params import Params

    case = data["case"]
    names, outcomes = case["chain"], case["outcomes"]
    calls: list[tuple[str, str]] = []

    def make(nm: str):
        def step(config: Any, tag: str = "") -> Any:
            calls.append((nm, tag))
            if outcomes[nm] in EXC:
                raise EXC[outcomes[nm]]("step failed")
            return {"none": None, "zero": 0, "one": 1}[outcomes[nm]]

        return step

    saved_cmd, saved_load = cmd_parser.params_from_cmd, intertest_setup.load_addons_tools
    for nm in set(names):
        setattr(intertest_setup, nm, make(nm))
    cmd_parser.params_from_cmd = lambda config: config.__setitem__("vms_params", Params({"setup": " ".join(names)}))
    intertest_setup.load_addons_tools = lambda: None
    try:
        try:
            rc = manu.Manu().run({"i2n.manu.params": []})
        except (AssertionError, TimeoutError, RuntimeError) as e:
            rc = f"escaped {type(e).__name__}"
    finally:
        cmd_parser.params_from_cmd, intertest_setup.load_addons_tools = saved_cmd, saved_load
        for nm in set(names):
            delattr(intertest_setup, nm)
    want_calls = [(nm, f"0m{i}") for i, nm in enumerate(names)]
    failed = any(outcomes[nm] == "one" or outcomes[nm] in EXC for nm in names)
    bad = calls != want_calls or (rc == 1) != failed
    return bad, f"calls={calls} rc={rc} (expected calls {want_calls}, failed={failed})"


# ---------------------------------------------------------------------------
# (b) per-object tool graphs

STATE_TOOLS = ["check", "get", "set", "unset", "push", "pop", "create", "clean", "collect"]
ACTION_OF = {"create": "set", "clean": "unset", "collect": "get"}
VM_TOOLS = {"boot": "start", "shutdown": "stop"}


def tool_monitor(run: Any) -> list[Any]:
    sc = run.scenario
    out = []
    if run.tool_error is not None:
        return [(f"C20 {sc.name} tool error", f"{sc.tool} raised {run.tool_error}", {})]
    # the later steps of a chain get their own parameters: a step leaves the shared dictionary as it found it
    if run.param_dict_after != run.param_dict_before:
        diff = {k: run.param_dict_after.get(k) for k in set(run.param_dict_after) | set(run.param_dict_before) if run.param_dict_after.get(k) != run.param_dict_before.get(k)}
        out.append((f"C20 {sc.name} step parameters leak into the chain", f"{sc.tool} {'crashed and ' if run.config.tool_crash else ''}left its own parameters in the chain's shared dictionary: {diff}", {}))
    if run.config.tool_crash:
        return out
    if run.crash is not None:
        return [(f"C20 {sc.name} crash", f"traversal failed: {run.crash}", {})]
    selected = sorted(sc.vm_strs)
    workers = sorted(getattr(sc, "compatible_workers", None) or run.graph.workers)
    starts = [e for e in run.trace if e["kind"] == "start"]
    seen: dict[tuple[str, str], int] = {}
    for e in starts:
        vms = e["params"].get("vms", "").split()
        for vm in vms:
            if vm not in selected:
                out.append((f"C20 {sc.name} acts on unselected vm", f"{sc.tool} acted on {vm} which is not selected ({selected})", {}))
        if sc.tool in STATE_TOOLS:
            if len(vms) != 1:
                out.append((f"C20 {sc.name} not per vm", f"{sc.tool} executed one test for several vms {vms}", {}))
            if e["params"].get("vm_action") != ACTION_OF.get(sc.tool, sc.tool):
                out.append((f"C20 {sc.name} wrong action", f"{sc.tool} executed a test with vm_action={e['params'].get('vm_action')}", {}))
            for k, v in sc.params.items():
                if any(k.endswith("_" + x) for x in selected):
                    continue
                if e["params"].get(k) != v:
                    out.append((f"C20 {sc.name} step parameter lost {k}", f"{sc.tool}: parameter {k}={v!r} not applied (got {e['params'].get(k)!r})", {}))
            # parameters given for one vm (key_<vm>) are the effective value for that vm
            from virttest.utils_params import Params

            for k, v in sc.params.items():
                for vm in vms:
                    if k.endswith("_" + vm):
                        base = k[: -len(vm) - 1]
                        got = Params(e["params"]).object_params(vm).get(base)
                        if got != v:
                            out.append((f"C20 {sc.name} per-vm step parameter lost {base}", f"{sc.tool}: {k}={v!r} was given but the test for {vm} runs with {base}={got!r}", {}))
            key = (e["worker"], vms[0] if vms else "")
            seen[key] = seen.get(key, 0) + 1
        else:
            if sorted(vms) != selected:
                out.append((f"C20 {sc.name} vm set", f"{sc.tool} test uses {vms}, selected are {selected}", {}))
            if VM_TOOLS[sc.tool] not in e["shortname"]:
                out.append((f"C20 {sc.name} wrong test", f"{sc.tool} executed {e['shortname']}", {}))
            key = (e["worker"], "*")
            seen[key] = seen.get(key, 0) + 1
    # a failing step reports failure to the chain (return code 1), a passing one 0
    by_name: dict[str, list[str]] = {}
    for e in starts:
        by_name.setdefault(e["name"], []).append(e.get("status"))
    failed = any(not any(s in trav.OK_STATUSES for s in sts) for sts in by_name.values())
    if (run.tool_result not in (None, 0)) != failed:
        out.append((f"C20 {sc.name} return value", f"{sc.tool} returned {run.tool_result!r} although {'a test failed' if failed else 'every test passed'}: the chain would report {'success' if run.tool_result in (None, 0) else 'failure'}", {}))
    expected = [(w, vm) for w in workers for vm in selected] if sc.tool in STATE_TOOLS else [(w, "*") for w in workers]
    for key in expected:
        n = seen.get(key, 0)
        if n != 1:
            out.append((f"C20 {sc.name} executions per vm and worker: {n}", f"{sc.tool} was executed {n} times for {key[1]} on {key[0]} (expected once)", {}))
    for key in seen:
        if key not in expected:
            out.append((f"C20 {sc.name} unexpected target", f"{sc.tool} executed for {key}", {}))
    return out


def _restricted(name: str, tool: str) -> trav.ToolScenario:
    sc = trav.ToolScenario(name, tool, nets="net1 net5 net2", vm_strs={"vm2": "only Win7\n", "vm3": "only Ubuntu\n"})
    sc.compatible_workers = ["net1", "net2"]
    return sc


def plans(tier: str) -> list[dict[str, Any]]:
    P = trav_plans.plan
    m = [tool_monitor]
    vm1 = {"vm1": "only CentOS\n"}
    vm12 = {"vm1": "only CentOS\n", "vm2": "only Win10\n"}
    out = [
        P("get on vm1 vm2, 2 workers", trav.ToolScenario("t-get", "get", nets="net1 net2", vm_strs=vm12, params={"get_state_images": "customize"}), m, K=1, statuses=["PASS", "FAIL"], max_nonpass=1, pool_fixed={"customize": ["own", "shared"]}),
        P("unset on vm1, 2 workers", trav.ToolScenario("t-unset", "unset", nets="net1 net2", vm_strs=vm1, params={"unset_state_images": "customize"}), m, K=1, statuses=["PASS"]),
        P("boot vm1 vm2, 1 worker", trav.ToolScenario("t-boot", "boot", nets="net1", vm_strs=vm12), m, K=1, statuses=["PASS", "FAIL"], max_nonpass=1),
        P("create vm1, 2 workers, one failure", trav.ToolScenario("t-create", "create", nets="net1 net2", vm_strs=vm1), m, K=1, statuses=["PASS", "FAIL"], max_nonpass=1),
        P("boot vm2(Win7) vm3 on net1 net5 net2 (net5 excludes Win7)", _restricted("t-boot-net5", "boot"), m, K=1, statuses=["PASS"]),
        P("unset on vm1 vm2 with a removal mode given for vm1 only", trav.ToolScenario("t-unset-pervm", "unset", nets="net1 net2", vm_strs=vm12, params={"unset_state_images": "customize", "unset_mode_vm1": "fa"}), m, K=1, statuses=["PASS"]),
        P("clean vm1 when the environment fails to start", trav.ToolScenario("t-clean-crash", "clean", nets="net1 net2", vm_strs=vm1), m, K=1, statuses=["PASS"], tool_crash=True),
        P("create vm1 when the environment fails to start", trav.ToolScenario("t-create-crash", "create", nets="net1", vm_strs=vm1), m, K=1, statuses=["PASS"], tool_crash=True),
    ]
    if tier == "thorough":
        out.append(P("clean vm1, 1 worker, one failure", trav.ToolScenario("t-clean", "clean", nets="net1", vm_strs=vm1), m, K=1, statuses=["PASS", "FAIL"], max_nonpass=1))
        for tool in ("check", "set", "push", "pop"):
            out.append(P(f"{tool} on vm1 vm2, 2 workers", trav.ToolScenario(f"t-{tool}", tool, nets="net1 net2", vm_strs=vm12, params={f"{tool}_state_images": "customize"}), m, K=1, statuses=["PASS", "FAIL"], max_nonpass=1, pool_fixed={"customize": ["own", "shared"]}))
        out.append(P("shutdown vm2(Win7) vm3 on net1 net5 net2", _restricted("t-shutdown-net5", "shutdown"), m, K=1, statuses=["PASS"]))
        out.append(P("shutdown vm1, 2 workers", trav.ToolScenario("t-shutdown", "shutdown", nets="net1 net2", vm_strs=vm1), m, K=1, statuses=["PASS"]))
        get5 = trav.ToolScenario("t-get-net5", "get", nets="net1 net5", vm_strs=vm1, params={"get_state_images": "customize"})
        get5.compatible_workers = ["net1"]  # net5 offers only the Fedora variant of vm1
        out.append(P("get on vm1, worker with excluding restrictions", get5, m, K=1, statuses=["PASS"], pool_fixed={"customize": ["own", "shared"]}))
    return out


replay_trav = travcheck.make_replay(plans)


def replay(data: dict[str, Any]) -> tuple[bool, str]:
    if "case" in data:
        return replay_chain(data)
    return replay_trav(data)


def run(ctx: common.Context) -> None:
    _cfg["max_chain"] = 4 if ctx.thorough else 3
    exhausted, stats, collected, err = symx.explore_parallel(_chain_factory, seed=ctx.seed, split_depth=3, deadline=ctx.deadline(40, 200), min_tasks=8)
    ctx.add_stats(stats)
    counters = common.merge_collected(ctx, collected)
    ctx.part("setup chain", exhausted=exhausted, paths=stats.paths, counters=counters)
    if err:
        ctx.note_inconclusive(err)
    if not exhausted:
        ctx.exhaustive = False
    if counters.get("failed_chains", 0) == 0:
        ctx.note_inconclusive("vacuous: no failing chain")
    for c in collected:
        for what, cls, detail in c.violations:
            ctx.report(f"C20 {cls}", what, detail, replay_chain)
    totals = travcheck.run_plans(ctx, plans(ctx.tier), 130 if not ctx.thorough else 1000, replay_trav)
    ctx.bounds = {"setup_chain": {"length": f"1..{_cfg['max_chain']}", "outcomes": OUTCOMES, "repeated step": [False, True]}, **{p["name"]: p["bounds"] for p in plans(ctx.tier)}}
    ctx.assumptions = ["Manu.run: cmd_parser.params_from_cmd and load_addons_tools are stubbed, the steps are stub functions installed in intertest_setup", "tool graphs: selftests' job seam; run_workers hands the graph to the scheduler; vm selections and worker sets from a menu (L1)"]
    ctx.coverage["counters"] = totals
    ctx.coverage["explanation"] = "solver-chosen step outcomes through the real Manu.run; tool graphs built by the real intertest_setup code traversed under solver-chosen schedules with a per-(vm, worker) execution monitor"

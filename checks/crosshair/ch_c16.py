"""CrossHair contracts over the real EdgeRegister (second engine)."""

from avocado_i2n.cartgraph.node import EdgeRegister


class _N:
    def __init__(self, form: str) -> None:
        self.bridged_form = form


class _W:
    def __init__(self, wid: str) -> None:
        self.id = wid


def counter_expected(regs: list[tuple[str, str]], qn: str, qw: str, by_node: bool, by_worker: bool) -> int:
    return sum(1 for n, w in regs if (not by_node or n == qn) and (not by_worker or w == qw))


def counter(regs: list[tuple[str, str]], qn: str, qw: str, by_node: bool, by_worker: bool) -> int:
    """
    pre: len(regs) <= 2 and len(qn) <= 1 and len(qw) <= 1
    pre: all(len(n) <= 1 and len(w) <= 1 for n, w in regs)
    post: __return__ == counter_expected(regs, qn, qw, by_node, by_worker)
    """
    reg = EdgeRegister()
    for n, w in regs:
        reg.register(_N(n), _W(w))
    return reg.get_counters(_N(qn) if by_node else None, _W(qw) if by_worker else None)


def counter_twin(regs: list[tuple[str, str]], qn: str, qw: str, by_node: bool, by_worker: bool) -> int:
    """
    pre: len(regs) <= 2 and len(qn) <= 1 and len(qw) <= 1
    pre: all(len(n) <= 1 and len(w) <= 1 for n, w in regs)
    post: __return__ < 2
    """
    return counter(regs, qn, qw, by_node, by_worker)


def workers_expected(regs: list[tuple[str, str]], qn: str, by_node: bool) -> set[str]:
    return {w for n, w in regs if not by_node or n == qn}


def workers(regs: list[tuple[str, str]], qn: str, by_node: bool) -> set[str]:
    """
    pre: len(regs) <= 2 and len(qn) <= 1
    pre: all(len(n) <= 1 and len(w) <= 1 for n, w in regs)
    post: __return__ == workers_expected(regs, qn, by_node)
    """
    reg = EdgeRegister()
    for n, w in regs:
        reg.register(_N(n), _W(w))
    return reg.get_workers(_N(qn) if by_node else None)

"""CrossHair contract over the real TestRunner.all_results_ok (second engine)."""

from avocado_i2n.plugins.runner import TestRunner

STATUSES = ["PASS", "FAIL", "ERROR", "WARN", "SKIP", "CANCEL", "INTERRUPTED"]
GOOD = {"PASS", "WARN", "SKIP", "CANCEL"}


class _ID:
    def __init__(self, name: str) -> None:
        self.name = name


class _Result:
    def __init__(self, tests: list) -> None:
        self.tests = tests


class _Job:
    def __init__(self, tests: list) -> None:
        self.result = _Result(tests)


def verdict_expected(entries: list[tuple[bool, int]]) -> bool:
    names = {n for n, _ in entries}
    return all(any(STATUSES[s % 7] in GOOD for n2, s in entries if n2 == n) for n in names)


def verdict(entries: list[tuple[bool, int]]) -> bool:
    """
    pre: len(entries) <= 2
    pre: all(0 <= s < 7 for _, s in entries)
    post: __return__ == verdict_expected(entries)
    """
    runner = TestRunner()
    runner.job = _Job([{"name": _ID("a" if n else "b"), "status": STATUSES[s % 7]} for n, s in entries])
    return runner.all_results_ok()


def verdict_twin(entries: list[tuple[bool, int]]) -> bool:
    """
    pre: len(entries) <= 2
    pre: all(0 <= s < 7 for _, s in entries)
    post: __return__ == True
    """
    return verdict(entries)

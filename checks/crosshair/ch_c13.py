"""CrossHair contracts over the real SourcedStateBackend.get_source_scope (second engine, thorough tier)."""

from virttest.utils_params import Params

from avocado_i2n.states.pool import SourcedStateBackend

SHARED, SWARM = "/mnt/shared", "/mnt/swarm"


def scope_of(own_gw: str, own_host: str, src_gw: str, src_host: str, path_kind: int) -> str:
    """
    pre: 0 <= path_kind <= 2
    pre: len(own_gw) <= 3 and len(own_host) <= 3 and len(src_gw) <= 3 and len(src_host) <= 3
    post: __return__ == ("cluster" if own_gw != src_gw else "swarm" if own_host != src_host else "own" if path_kind == 1 else "shared")
    """
    path = [SHARED, SWARM, "/mnt/other"][path_kind]
    own = Params({"nets_gateway": own_gw, "nets_host": own_host, "shared_pool": SHARED, "swarm_pool": SWARM})
    src = Params({"nets_gateway": src_gw, "nets_host": src_host})
    return SourcedStateBackend.get_source_scope(path, src, own)


def reach_twin(own_gw: str, own_host: str, src_gw: str, src_host: str, path_kind: int) -> str:
    """
    pre: 0 <= path_kind <= 2
    pre: len(own_gw) <= 3 and len(own_host) <= 3 and len(src_gw) <= 3 and len(src_host) <= 3
    post: __return__ != "own"
    """
    return scope_of(own_gw, own_host, src_gw, src_host, path_kind)

"""CrossHair contracts over the combination loops of QCOW2VTBackend.show / RamfileBackend._show (second engine)."""

import os

from virttest.utils_params import Params

from avocado_i2n.states import qcow2, ramfile


def vm_states_expected(listings: list[list[str]]) -> set[str]:
    out = set(listings[0])
    for l in listings[1:]:
        out &= set(l)
    return out


def _params(n: int) -> Params:
    return Params({"vms": "vm1", "images": " ".join(f"image{i + 1}" for i in range(n)), "images_base_dir": "/i", "swarm_pool": "/p", "object_id": "vm1-x"})


def qcow2vt_show(listings: list[list[str]]) -> set[str]:
    """
    pre: 1 <= len(listings) <= 2
    pre: all(len(l) <= 2 and all(len(s) <= 1 for s in l) for l in listings)
    post: __return__ == vm_states_expected(listings)
    """
    by_image = {f"image{i + 1}": l for i, l in enumerate(listings)}
    saved = qcow2.QCOW2Backend.show
    qcow2.QCOW2Backend.show = classmethod(lambda cls, params, object=None: list(by_image[params["images"]]))
    try:
        return set(qcow2.QCOW2VTBackend.show(_params(len(listings)), None))
    finally:
        qcow2.QCOW2Backend.show = saved


def qcow2vt_show_twin(listings: list[list[str]]) -> set[str]:
    """
    pre: 1 <= len(listings) <= 2
    pre: all(len(l) <= 2 and all(len(s) <= 1 for s in l) for l in listings)
    post: len(__return__) == 0
    """
    return qcow2vt_show(listings)

"""
C14 - pool transfers are exact, never destroy data, and exclude each other.

Real code: ``TransferOps.download_local/upload_local/delete_local/download_link/
upload_link/delete_link/compare_local/compare_link`` and ``image_lock``, run over a
model file system (``pool.os``, ``pool.shutil``, ``pool.open``), a model ``fcntl.lockf``
that answers EAGAIN for the first k attempts (k symbolic), ``time.sleep`` as a no-op and
``crypto.hash_file`` returning the (symbolic) content it is asked to hash.  File
contents are pairs of symbolic integers (first MiB, rest): the code hashes only the
first 1048576 bytes.  A fault index makes the f-th file system call raise ``OSError``.

Kernel semantics (exclusion between processes holding the lock, release on process
death) are assumed; checked is the lock discipline of the code from which non-overlap
follows.
"""

from __future__ import annotations

import errno
import posixpath
from typing import Any

import z3

from engine import symx
from . import common

CACHE = "/cache/vm1/image1/state.qcow2"
POOL = "/pool/vm1/image1/state.qcow2"
ELSE = "/elsewhere/data.qcow2"
LOCK = POOL + ".lock"
TIMEOUT = 3


class Content:
    """Symbolic file content: (first MiB, rest)."""

    def __init__(self, name: str) -> None:
        e = symx.engine()
        self.head = z3.Int(e.fresh(name + "_head"))
        self.tail = z3.Int(e.fresh(name + "_tail"))

    def same(self, other: "Content") -> Any:
        return z3.And(self.head == other.head, self.tail == other.tail)


class Digest:
    def __init__(self, content: Content, partial: bool) -> None:
        self.content = content
        self.partial = partial

    def __eq__(self, other: Any) -> Any:  # type: ignore[override]
        if isinstance(other, Digest):
            if self.partial or other.partial:
                return symx.SymBool(self.content.head == other.content.head, label="hash_first_MiB_equal")
            return symx.SymBool(self.content.same(other.content), label="hash_equal")
        return False

    def __ne__(self, other: Any) -> Any:  # type: ignore[override]
        r = self.__eq__(other)
        return ~r if isinstance(r, symx.SymBool) else not r

    def __hash__(self) -> int:
        return 3


class World:
    """Model file system + lock + fault injection + event log."""

    def __init__(self, eng: symx.Engine, fault_at: int, busy: Any) -> None:
        self.eng = eng
        self.files: dict[str, Any] = {}  # path -> ("data", Content) | ("link", target)
        self.dirs: set[str] = set()
        self.calls = 0
        self.fault_at = fault_at
        self.busy = busy  # number of EAGAIN answers before the lock is granted
        self.lock_attempts = 0
        self.held = False
        self.taken = 0
        self.released = 0
        self.log: list[tuple[str, str, bool]] = []  # (operation, path, lock held)
        self.sleeps = 0

    def fs_call(self, what: str, path: str, mutating: bool) -> None:
        idx = self.calls
        self.calls += 1
        if idx == self.fault_at:
            self.log.append(("fault:" + what, path, self.held))
            raise OSError(errno.EIO, f"injected fault at {what}({path})")
        if mutating:
            self.log.append((what, path, self.held))

    def resolve(self, path: str) -> str | None:
        seen = 0
        while path in self.files and self.files[path][0] == "link" and seen < 5:
            path = self.files[path][1]
            seen += 1
        return path if path in self.files and self.files[path][0] == "data" else None


def make_modules(w: World) -> dict[str, Any]:
    class Path:
        join = staticmethod(posixpath.join)
        dirname = staticmethod(posixpath.dirname)
        basename = staticmethod(posixpath.basename)
        isabs = staticmethod(posixpath.isabs)

        @staticmethod
        def exists(p: str) -> bool:
            return w.resolve(p) is not None or p in w.dirs

        @staticmethod
        def lexists(p: str) -> bool:
            return p in w.files or p in w.dirs

        @staticmethod
        def islink(p: str) -> bool:
            return p in w.files and w.files[p][0] == "link"

        @staticmethod
        def isfile(p: str) -> bool:
            return w.resolve(p) is not None

        @staticmethod
        def realpath(p: str) -> str:
            seen = 0
            while p in w.files and w.files[p][0] == "link" and seen < 5:
                p = w.files[p][1]
                seen += 1
            return p

    class OS:
        path = Path

        @staticmethod
        def makedirs(d: str, exist_ok: bool = False) -> None:
            w.fs_call("makedirs", d, False)
            w.dirs.add(d)

        @staticmethod
        def unlink(p: str) -> None:
            w.fs_call("unlink", p, True)
            if p not in w.files:
                raise FileNotFoundError(errno.ENOENT, "no such file", p)
            del w.files[p]

        remove = unlink

        @staticmethod
        def symlink(target: str, p: str) -> None:
            w.fs_call("symlink", p, True)
            if p in w.files:
                raise FileExistsError(errno.EEXIST, "exists", p)
            w.files[p] = ("link", target)

        @staticmethod
        def listdir(d: str) -> list[str]:
            return sorted(posixpath.basename(p) for p in w.files if posixpath.dirname(p) == d)

        @staticmethod
        def stat(p: str) -> Any:
            raise NotImplementedError

    class Shutil:
        @staticmethod
        def copy(src: str, dst: str) -> str:
            w.fs_call("copy", dst, True)
            real_src = w.resolve(src)
            if real_src is None:
                raise FileNotFoundError(errno.ENOENT, "no such file", src)
            target = dst
            seen = 0
            while target in w.files and w.files[target][0] == "link" and seen < 5:
                target = w.files[target][1]
                seen += 1
            if target != dst:
                w.log.append(("write-through-link", target, w.held))
            w.files[target] = ("data", w.files[real_src][1])
            return dst

        copy2 = copy
        copyfile = copy

    class FD:
        def __init__(self, name: str) -> None:
            self.name = name

        def __enter__(self) -> "FD":
            return self

        def __exit__(self, *a: Any) -> bool:
            return False

        def fileno(self) -> int:
            return 9

        def close(self) -> None:
            pass

    def fake_open(p: str, mode: str = "r", *a: Any, **k: Any) -> FD:
        w.fs_call("open", p, False)
        if "w" in mode and p not in w.files:
            w.files[p] = ("data", Content("lockfile"))
        return FD(p)

    class Fcntl:
        LOCK_EX, LOCK_NB, LOCK_UN, LOCK_SH = 2, 4, 8, 1

        @staticmethod
        def lockf(fd: Any, flags: int) -> None:
            if flags & Fcntl.LOCK_UN:
                if not w.held:
                    w.log.append(("unlock-without-lock", fd.name, False))
                w.held = False
                w.released += 1
                return
            if fd.name not in w.files:
                w.log.append(("lock-on-removed-file", fd.name, w.held))
            w.lock_attempts += 1
            if bool(symx.SymInt(w.busy) >= w.lock_attempts):
                raise IOError(errno.EAGAIN, "resource temporarily unavailable")
            w.held = True
            w.taken += 1

    class Time:
        @staticmethod
        def sleep(t: Any) -> None:
            w.sleeps += 1

        @staticmethod
        def time() -> float:
            return 0.0

    class Crypto:
        @staticmethod
        def hash_file(p: str, size: Any = None, algorithm: str = "md5") -> Any:
            w.fs_call("read", p, False)
            real = w.resolve(p)
            if real is None:
                raise FileNotFoundError(errno.ENOENT, "no such file", p)
            return Digest(w.files[real][1], partial=size is not None)

    return {"os": OS, "shutil": Shutil, "open": fake_open, "fcntl": Fcntl, "time": Time, "crypto": Crypto}


OPS = ["download_local", "upload_local", "delete_local", "download_link", "upload_link", "delete_link"]
CACHE_KINDS = ["absent", "data", "link_to_pool", "link_elsewhere", "dead_link"]
_cfg = {"max_fault": 7}


def _factory():
    from avocado_i2n.states import pool
    from virttest.utils_params import Params

    col = common.Collector()
    saved = {k: getattr(pool, k, None) for k in ("os", "shutil", "fcntl", "time", "crypto")}

    def fn(eng: symx.Engine) -> Any:
        op = OPS[eng.pick(len(OPS), "op")]
        cache_kind = CACHE_KINDS[eng.pick(len(CACHE_KINDS), "cache")]
        pool_exists = eng.pick(2, "pool_exists") == 1
        fault_at = eng.pick(_cfg["max_fault"] + 1, "fault_at") - 1  # -1: no fault
        busy = z3.Int(eng.fresh("lock_busy_attempts"))
        eng.assume(z3.And(busy >= 0, busy <= TIMEOUT + 1), check=False)
        w = World(eng, fault_at, busy)
        c_cache, c_pool, c_else = Content("cache"), Content("pool"), Content("elsewhere")
        if cache_kind == "data":
            w.files[CACHE] = ("data", c_cache)
        elif cache_kind == "link_to_pool":
            w.files[CACHE] = ("link", POOL)
        elif cache_kind == "link_elsewhere":
            w.files[CACHE] = ("link", ELSE)
            w.files[ELSE] = ("data", c_else)
        elif cache_kind == "dead_link":
            w.files[CACHE] = ("link", "/gone/file")
        if pool_exists:
            w.files[POOL] = ("data", c_pool)
        before = dict(w.files)
        mods = make_modules(w)
        for k, v in mods.items():
            setattr(pool, k, v)
        pool.SKIP_LOCKS = False
        params = Params({"update_pool_timeout": str(TIMEOUT)})
        raised: Any = None
        try:
            fnc = getattr(pool.TransferOps, op)
            if op.startswith("delete"):
                fnc(POOL, params)
            else:
                fnc(CACHE, POOL, params)
        except (OSError, RuntimeError, ValueError) as e:
            raised = e
        finally:
            for k in ("os", "shutil", "fcntl", "time", "crypto"):
                setattr(pool, k, saved[k])
            if "open" in pool.__dict__:
                del pool.__dict__["open"]
        col.count("transfers")
        desc = {"op": op, "cache": cache_kind, "pool_exists": pool_exists, "fault_at_call": fault_at, "log": [f"{a}:{posixpath.basename(p)}:{'locked' if h else 'UNLOCKED'}" for a, p, h in w.log], "raised": type(raised).__name__ if raised else None}

        def viol(what: str, cls: str) -> None:
            desc["lock_busy_attempts"] = eng.model_eval(busy)
            raise symx.Violation(what, {"case": desc, "class": cls})

        faulted = any(a.startswith("fault:") for a, _p, _h in w.log)
        # (1) lock discipline
        for a, p, held in w.log:
            if a in ("copy", "unlink", "symlink", "write-through-link") and p != LOCK and not held:
                viol(f"{op}: {a} of {p} without holding the pool lock", f"{op} mutation outside the lock")
            if a in ("unlink",) and p == LOCK:
                viol(f"{op}: the lock file itself is removed (a waiting process keeps the old inode, a later one locks a new file)", f"{op} removes lock file")
            if a in ("unlock-without-lock", "lock-on-removed-file"):
                viol(f"{op}: {a}", f"{op} {a}")
        if w.held:
            viol(f"{op}: the lock is still held on exit (raised={desc['raised']})", f"{op} lock leaked")
        if w.taken != w.released:
            viol(f"{op}: lock taken {w.taken} times, released {w.released} times", f"{op} lock imbalance")
        # (3) waiting longer than the timeout is an error and nothing is touched
        uses_lock = not (op == "upload_link" and cache_kind in ("link_to_pool", "link_elsewhere", "dead_link"))
        if uses_lock and not faulted and w.lock_attempts > 0:
            timed_out = w.taken == 0
            if timed_out:
                if not isinstance(raised, RuntimeError):
                    viol(f"{op}: lock never granted but no RuntimeError", f"{op} timeout not reported")
                if any(a in ("copy", "unlink", "symlink") for a, _p, _h in w.log):
                    viol(f"{op}: proceeded unlocked after the timeout", f"{op} proceeds unlocked")
                if not eng.prove(busy >= TIMEOUT, "timeout only when the lock stays busy for all attempts"):
                    viol(f"{op}: gave up although the lock became free within the timeout", f"{op} premature timeout")
                col.count("timeouts")
                return None
            if not eng.prove(busy < TIMEOUT, "lock granted only within the timeout"):
                viol(f"{op}: proceeded although the lock was busy for the whole timeout", f"{op} late grant")
        # (5) never destroy data: whatever real data existed before still exists unless this operation is its deletion
        for path, (kind, val) in before.items():
            if kind != "data":
                continue
            deleting = op.startswith("delete") and path == POOL
            overwriting = (op.startswith("download") and path == CACHE) or (op.startswith("upload") and path == POOL)
            if path not in w.files or w.files[path][0] != "data":
                if deleting and not faulted and raised is None:
                    continue
                if deleting and path not in w.files:
                    continue
                viol(f"{op}: real data at {path} is gone (raised={desc['raised']})", f"{op} destroys data")
            elif not overwriting and not deleting and not (path == ELSE and op.startswith("download")):
                # (a cache path that is a link makes its target the destination of a download)
                if w.files[path][1] is not val:
                    viol(f"{op}: unrelated / source data at {path} was altered", f"{op} alters source")
        # (4) exactness without fault
        if not faulted and raised is None:
            if op in ("download_local", "upload_local"):
                src, dst = (POOL, CACHE) if op == "download_local" else (CACHE, POOL)
                rs, rd = w.resolve(src), w.resolve(dst)
                if rs is not None:
                    if rd is None:
                        viol(f"{op}: destination missing after a successful transfer", f"{op} destination missing")
                    if not eng.prove(w.files[rs][1].same(w.files[rd][1]), "destination identical to source"):
                        viol(f"{op}: the copy was skipped although source and destination differ beyond the first MiB (only the first 1048576 bytes are compared)", "skips copy of differing files (first-MiB hash)")
                    copied = any(a == "copy" for a, _p, _h in w.log)
                    src_before, dst_before = before.get(rs), before.get(rd)
                    if copied and dst_before is not None and dst_before[0] == "data" and src_before is not None:
                        if eng.prove(src_before[1].same(dst_before[1]), "copied although identical"):
                            viol(f"{op}: copied although both files already matched", f"{op} redundant copy")
                    col.count("exact_transfers")
            if op == "download_link":
                if w.resolve(POOL) is not None:
                    if CACHE not in w.files:
                        viol("download_link: nothing provided at the cache path", "download_link nothing")
                    kind = w.files[CACHE][0]
                    if kind == "link" and w.files[CACHE][1] != POOL:
                        viol("download_link: the cache link points elsewhere", "download_link wrong target")
                    if kind == "data" and before.get(CACHE, (None,))[0] != "data":
                        viol("download_link: data appeared instead of a link", "download_link data")
            if op == "upload_link" and cache_kind in ("link_to_pool", "link_elsewhere", "dead_link"):
                viol("upload_link uploaded a link", "upload_link accepts link")
            if op.startswith("delete") and pool_exists and POOL in w.files:
                viol(f"{op}: the pool file is still there", f"{op} did not delete")
        if op == "upload_link" and cache_kind in ("link_to_pool", "link_elsewhere", "dead_link") and not isinstance(raised, ValueError) and not faulted:
            viol("upload_link of a link was not rejected", "upload_link accepts link")
        if op == "download_link" and cache_kind == "data" and pool_exists and not faulted and raised is None:
            # real data replaced by a link is only acceptable when both match (then nothing happens)
            if CACHE in w.files and w.files[CACHE][0] == "link":
                viol("download_link replaced real data with a link", "download_link replaces data")
        if len(col.samples) < 3 and w.log and not faulted:
            col.samples.append(desc)
        return None

    def on_path(eng: symx.Engine, outcome: str, payload: Any) -> None:
        if outcome == "violation":
            col.violations.append((payload.what, payload.detail["class"], payload.detail))

    def collect() -> Any:
        col.functions = set(common.TRACER.seen)
        return col

    return fn, on_path, collect


def replay(data: dict[str, Any]) -> tuple[bool, str]:
    """Concrete re-run on a real temporary directory with real files (no lock contention, faults by patching)."""
    import os
    import shutil
    import tempfile
    from unittest import mock

    from avocado_i2n.states import pool
    from virttest.utils_params import Params

    case = data["case"]
    cls = data["class"]
    op = case["op"]
    tmp = tempfile.mkdtemp(prefix="c14-", dir="/var/tmp")
    try:
        cache = os.path.join(tmp, "cache/vm1/image1/state.qcow2")
        poolp = os.path.join(tmp, "pool/vm1/image1/state.qcow2")
        elsew = os.path.join(tmp, "elsewhere/data.qcow2")
        for p in (cache, poolp, elsew):
            os.makedirs(os.path.dirname(p), exist_ok=True)
        big = b"A" * 1048576
        if case["cache"] == "data":
            open(cache, "wb").write(big + b"cache-tail")
        elif case["cache"] == "link_to_pool":
            os.symlink(poolp, cache)
        elif case["cache"] == "link_elsewhere":
            open(elsew, "wb").write(big + b"else")
            os.symlink(elsew, cache)
        elif case["cache"] == "dead_link":
            os.symlink(os.path.join(tmp, "gone"), cache)
        if case["pool_exists"]:
            open(poolp, "wb").write(big + b"pool-tail!")
        params = Params({"update_pool_timeout": "3"})
        pool.SKIP_LOCKS = False
        fault = case["fault_at_call"]
        raised = None
        patches = []
        if fault >= 0 and "destroys data" in cls:
            patches.append(mock.patch.object(pool.shutil, "copy", side_effect=OSError(5, "injected")))
        unlinked = []
        real_unlink = os.unlink
        patches.append(mock.patch.object(pool.os, "unlink", side_effect=lambda p: (unlinked.append(p), real_unlink(p))[1]))
        for p in patches:
            p.start()
        try:
            f = getattr(pool.TransferOps, op)
            f(poolp, params) if op.startswith("delete") else f(cache, poolp, params)
        except (OSError, RuntimeError, ValueError) as e:
            raised = e
        finally:
            for p in patches:
                p.stop()
        if "first-MiB" in cls:
            src, dst = (poolp, cache) if op == "download_local" else (cache, poolp)
            same = open(src, "rb").read() == open(dst, "rb").read()
            return (not same), f"after {op}: destination {'equals' if same else 'DIFFERS from'} source (files share the first MiB)"
        if "removes lock file" in cls:
            return (poolp + ".lock" in unlinked), f"unlinked: {unlinked}"
        if "destroys data" in cls:
            gone = case["cache"] == "data" and not os.path.exists(cache)
            return gone, f"cache data {'gone' if gone else 'still there'} after injected copy failure (raised {raised})"
        if "accepts link" in cls:
            return (not isinstance(raised, ValueError)), f"raised {raised}"
        return False, f"class {cls!r} has no concrete replay (raised {raised})"
    finally:
        shutil.rmtree(tmp, ignore_errors=True)


def run(ctx: common.Context) -> None:
    _cfg["max_fault"] = 9 if ctx.thorough else 7
    exhausted, stats, collected, err = symx.explore_parallel(_factory, seed=ctx.seed, split_depth=4, deadline=ctx.deadline(150, 900))
    ctx.add_stats(stats)
    counters = common.merge_collected(ctx, collected)
    ctx.part("transfers", exhausted=exhausted, paths=stats.paths, counters=counters)
    if err:
        ctx.note_inconclusive(err)
    if not exhausted:
        ctx.exhaustive = False
    if counters.get("timeouts", 0) == 0 or counters.get("exact_transfers", 0) == 0:
        ctx.note_inconclusive("vacuous: no timeout or no completed transfer explored")
    replayable = ("first-MiB", "removes lock file", "destroys data", "accepts link")
    for c in collected:
        for what, cls, detail in c.violations:
            d = dict(detail)
            d["class"] = cls
            ctx.report(f"C14 {cls}", what + f" [op={detail['case']['op']} cache={detail['case']['cache']} pool_exists={detail['case']['pool_exists']} fault_at={detail['case']['fault_at_call']}]", d, replay if any(r in cls for r in replayable) else None)
    run_interleavings(ctx)
    ctx.bounds = {"operations": OPS, "cache_path": CACHE_KINDS, "pool_file": ["absent", "data"], "contents": "symbolic (first MiB, rest) per file", "lock": f"EAGAIN for k attempts, k symbolic in [0, {TIMEOUT + 1}], update_pool_timeout={TIMEOUT}", "fault": f"none or OSError at the f-th file system call, f < {_cfg['max_fault']}"}
    ctx.assumptions = [
        "fcntl.lockf exclusion between processes and release on process death are kernel properties: assumed, not checked; remote transfers have no locks in the code and are excluded",
        "model file system for pool.os/shutil/open, crypto.hash_file returns the content it is asked to hash (hash equality = content equality of the hashed part)",
    ]
    ctx.coverage["explanation"] = "symbolic execution of the real transfer operations and image_lock over a model file system; contents, lock contention and the fault position are solver variables; exactness is a validity query over the content terms"


# ---------------------------------------------------------------------------
# interleavings of several processes on one pool file (lock discipline over an inode-level lock model)

import threading


class _Kill(BaseException):
    pass


class Procs:
    """Runs n real transfer operations as baton-passing threads; the solver picks who continues at every file system call."""

    def __init__(self, eng: symx.Engine, n: int) -> None:
        self.eng = eng
        self.cv = threading.Condition()
        self.turn: Any = "sched"
        self.alive: dict[int, bool] = {}
        self.error: dict[int, BaseException] = {}
        self.killed = False
        self.local = threading.local()
        self.steps = 0

    def pid(self) -> int:
        return getattr(self.local, "pid", -1)

    def yield_point(self) -> None:
        pid = self.pid()
        if pid < 0:
            return
        with self.cv:
            self.turn = "sched"
            self.cv.notify_all()
            while self.turn != pid:
                self.cv.wait()
            if self.killed:
                raise _Kill()

    def _body(self, pid: int, fn: Any) -> None:
        self.local.pid = pid
        with self.cv:
            while self.turn != pid:
                self.cv.wait()
        try:
            if not self.killed:
                fn()
        except _Kill:
            pass
        except BaseException as e:  # noqa: B036 - symx control flow must reach the main thread
            self.error[pid] = e
        finally:
            with self.cv:
                self.alive[pid] = False
                self.turn = "sched"
                self.cv.notify_all()

    def run(self, bodies: list[Any]) -> None:
        threads = []
        for pid, fn in enumerate(bodies):
            self.alive[pid] = True
            t = threading.Thread(target=self._body, args=(pid, fn), daemon=True)
            threads.append(t)
            t.start()
        failure: BaseException | None = None
        try:
            while any(self.alive.values()):
                live = [p for p, a in self.alive.items() if a]
                idx = symx.choose(len(live), f"proc_step{self.steps}")
                self.steps += 1
                if self.steps > 400:
                    raise symx.Abort("interleaving step bound")
                pid = live[idx]
                with self.cv:
                    self.turn = pid
                    self.cv.notify_all()
                    while self.turn != "sched":
                        self.cv.wait()
                for p, e in list(self.error.items()):
                    if isinstance(e, (symx.Abort, symx.Violation, symx.Inconclusive)):
                        raise e
        except BaseException as e:  # noqa: B036
            failure = e
        # release every remaining thread so that it ends
        self.killed = True
        for pid in list(self.alive):
            while self.alive[pid]:
                with self.cv:
                    self.turn = pid
                    self.cv.notify_all()
                    while self.turn != "sched" and self.alive[pid]:
                        self.cv.wait(0.05)
        for t in threads:
            t.join(1)
        if failure is not None:
            raise failure


MP_OPS = ["download_local", "upload_local", "delete_local"]
_mp = {"procs": 2}


def _mp_factory():
    from avocado_i2n.states import pool
    from virttest.utils_params import Params

    col = common.Collector()
    saved = {k: getattr(pool, k, None) for k in ("os", "shutil", "fcntl", "time", "crypto")}

    def fn(eng: symx.Engine) -> Any:
        n = _mp["procs"]
        ops = [MP_OPS[eng.pick(len(MP_OPS), f"op{i}")] for i in range(n)]
        procs = Procs(eng, n)
        w = World(eng, -1, z3.IntVal(0))
        w.files[POOL] = ("data", Content("pool"))
        caches = [f"/cache{i}/vm1/image1/state.qcow2" for i in range(n)]
        for i, c in enumerate(caches):
            w.files[c] = ("data", Content(f"cache{i}"))
        # inode-level lock model
        inode_of: dict[str, int] = {}
        counter = [0]
        locked: dict[int, int] = {}
        in_cs: dict[int, str] = {}
        events: list[str] = []
        mods = make_modules(w)
        real_fs_call = w.fs_call

        def fs_call(what: str, path: str, mutating: bool) -> None:
            # operations on a process's private cache commute with everything: no scheduling point
            if path.startswith("/pool") or what == "copy":
                procs.yield_point()
            pid = procs.pid()
            if mutating or what == "read":
                if path == POOL or (what == "copy"):
                    others = [p for p in in_cs if p != pid]
                    if pid not in in_cs:
                        raise symx.Violation(f"process {pid} touches the pool file ({what}) outside its critical section", {"class": "mp unlocked access", "ops": ops, "events": events})
                    if others:
                        raise symx.Violation(f"processes {pid} and {others} are inside the critical section of the same pool file at once ({what})", {"class": "mp overlapping critical sections", "ops": ops, "events": events})
            if what == "unlink" and path == LOCK:
                inode_of.pop(LOCK, None)
                events.append(f"p{pid}:unlink-lockfile")
            events.append(f"p{pid}:{what}:{posixpath.basename(path)}")
            real_fs_call(what, path, mutating)

        w.fs_call = fs_call  # type: ignore[method-assign]

        class FD:
            def __init__(self, name: str, inode: int) -> None:
                self.name, self.inode = name, inode

            def __enter__(self) -> "FD":
                return self

            def __exit__(self, *a: Any) -> bool:
                return False

        def fake_open(p: str, mode: str = "r", *a: Any, **k: Any) -> FD:
            procs.yield_point()
            if p not in inode_of:
                counter[0] += 1
                inode_of[p] = counter[0]
                w.files[p] = ("data", Content("lockfile"))
            return FD(p, inode_of[p])

        Fcntl = mods["fcntl"]

        class MPFcntl:
            LOCK_EX, LOCK_NB, LOCK_UN, LOCK_SH = Fcntl.LOCK_EX, Fcntl.LOCK_NB, Fcntl.LOCK_UN, Fcntl.LOCK_SH

            @staticmethod
            def lockf(fd: Any, flags: int) -> None:
                pid = procs.pid()
                if flags & MPFcntl.LOCK_UN:
                    if locked.get(fd.inode) == pid:
                        del locked[fd.inode]
                    in_cs.pop(pid, None)
                    events.append(f"p{pid}:unlock")
                    return
                procs.yield_point()
                holder = locked.get(fd.inode)
                if holder is not None and holder != pid:
                    events.append(f"p{pid}:busy")
                    raise IOError(errno.EAGAIN, "busy")
                locked[fd.inode] = pid
                in_cs[pid] = fd.name
                events.append(f"p{pid}:lock(inode {fd.inode})")

        class MPTime:
            @staticmethod
            def sleep(t: Any) -> None:
                procs.yield_point()

        mods["fcntl"], mods["open"], mods["time"] = MPFcntl, fake_open, MPTime
        for k, v in mods.items():
            setattr(pool, k, v)
        pool.SKIP_LOCKS = False
        params = Params({"update_pool_timeout": "2"})
        outcomes: dict[int, str] = {}

        def body(i: int):
            def run_op() -> None:
                f = getattr(pool.TransferOps, ops[i])
                try:
                    f(POOL, params) if ops[i].startswith("delete") else f(caches[i], POOL, params)
                    outcomes[i] = "done"
                except (OSError, RuntimeError) as e:
                    outcomes[i] = type(e).__name__

            return run_op

        try:
            procs.run([body(i) for i in range(n)])
        finally:
            for k in ("os", "shutil", "fcntl", "time", "crypto"):
                setattr(pool, k, saved[k])
            if "open" in pool.__dict__:
                del pool.__dict__["open"]
        col.count("interleavings")
        if locked:
            raise symx.Violation(f"a lock is still held after all processes ended: {locked}", {"class": "mp lock leaked", "ops": ops, "events": events})
        if any("busy" in e for e in events):
            col.count("with_contention")
        if len(col.samples) < 2 and any("busy" in e for e in events):
            col.samples.append({"processes": ops, "events": events, "outcomes": outcomes})
        return None

    def on_path(eng: symx.Engine, outcome: str, payload: Any) -> None:
        if outcome == "violation":
            col.violations.append((payload.what, payload.detail["class"], payload.detail))

    def collect() -> Any:
        col.functions = set(common.TRACER.seen)
        return col

    return fn, on_path, collect


def run_interleavings(ctx: common.Context) -> None:
    _mp["procs"] = 3 if ctx.thorough else 2
    exhausted, stats, collected, err = symx.explore_parallel(_mp_factory, seed=ctx.seed, split_depth=4, deadline=ctx.deadline(100, 900))
    ctx.add_stats(stats)
    counters = common.merge_collected(ctx, collected)
    ctx.part("process interleavings", exhausted=exhausted, paths=stats.paths, counters=counters, bounds={"processes": _mp["procs"], "operations": MP_OPS, "scheduling_points": "every file system call, lock attempt and sleep", "lock_model": "lockf excludes per inode; a removed and re-created lock file is a new inode", "update_pool_timeout": 2})
    if err:
        ctx.note_inconclusive(err)
    if not exhausted:
        ctx.exhaustive = False
    if counters.get("with_contention", 0) == 0:
        ctx.note_inconclusive("vacuous: no interleaving with lock contention")
    for c in collected:
        for what, cls, detail in c.violations:
            ctx.report(f"C14 {cls}", what + f" [processes={detail['ops']} events={detail['events'][-8:]}]", {"case": {"op": "+".join(detail["ops"]), "cache": "data", "pool_exists": True, "fault_at_call": -1}, "class": cls, **detail}, None)

"""
C12 - state operations follow the documented policy table and a store model.

The real ``check/get/set/unset/push/pop_states`` (with ``_parametric_object_iteration``
and ``_state_check_chain``) run against an in-memory backend registered in
``BACKENDS``.  Symbolic: both letters of the operation's mode (a symbolic character each:
one path covers every letter the code does not distinguish), presence of the state
and of the root per object.  Enumerated by the explorer: operation, state kind (root
keyword / ordinary), addressed type (nets, vms, images) and addressing (all objects of
the type / one object), skip_types, readonly image, check_mode, 1..2 vms x 1..2 images,
sequences of operations.  Oracle: the README policy table as a reference model over the
same symbolic letters; compared are the raised exception class, the backend calls that
change states and the final store.
"""

from __future__ import annotations

import itertools
from typing import Any

import z3

from engine import symx
from . import common

ROOTS = ["root", "0root", "boot", "0boot"]


class SymChar:
    """One symbolic character of a mode string."""

    def __init__(self, name: str) -> None:
        self.z = z3.Int(symx.engine().fresh(name))
        self.name = name

    def __eq__(self, other: Any) -> Any:  # type: ignore[override]
        if isinstance(other, str) and len(other) == 1:
            return symx.SymBool(self.z == ord(other), label=f"{self.name}=={other}")
        if isinstance(other, SymChar):
            return symx.SymBool(self.z == other.z)
        return False

    def __ne__(self, other: Any) -> Any:  # type: ignore[override]
        r = self.__eq__(other)
        return ~r if isinstance(r, symx.SymBool) else not r

    def __hash__(self) -> int:
        return 11

    def __str__(self) -> str:
        return "?"

    __repr__ = __str__

    def __format__(self, spec: str) -> str:
        return "?"

    def value(self, eng: symx.Engine) -> str:
        v = eng.model_eval(self.z)
        return chr(v) if isinstance(v, int) and 32 <= v < 127 else "x"


class SymMode:
    """A two-letter policy whose letters are symbolic."""

    def __init__(self, name: str) -> None:
        self.letters = [SymChar(f"{name}[0]"), SymChar(f"{name}[1]")]
        e = symx.engine()
        for ch in self.letters:
            e.assume(z3.And(ch.z >= 97, ch.z <= 122), check=False)

    def __getitem__(self, i: int) -> SymChar:
        return self.letters[i]

    def __len__(self) -> int:
        return 2

    def __str__(self) -> str:
        return "??"

    __repr__ = __str__

    def __format__(self, spec: str) -> str:
        return "??"

    def __bool__(self) -> bool:
        return True


class Initial:
    """Initial content of the store: one lazily created solver variable per (object, state)."""

    def __init__(self, fixed: dict[str, bool] | None = None) -> None:
        self.bits: dict[tuple[str, str], bool] = {}
        self.fixed = fixed

    def get(self, key: tuple[str, str]) -> bool:
        if key not in self.bits:
            if self.fixed is not None:
                self.bits[key] = self.fixed.get(f"{key[0]}:{key[1]}", False)
            else:
                self.bits[key] = bool(symx.SymBool(name=f"has:{key[0]}:{key[1]}"))
        return self.bits[key]


class Store:
    """Set-of-names store: an overlay of changes over the shared initial content."""

    def __init__(self, initial: Initial) -> None:
        self.initial = initial
        self.overlay: dict[tuple[str, str], bool] = {}
        self.calls: list[tuple[str, str, str]] = []

    def has(self, obj: str, state: str) -> bool:
        key = (obj, state)
        if key in self.overlay:
            return self.overlay[key]
        return self.initial.get(key)

    def put(self, obj: str, state: str, value: bool) -> None:
        self.overlay[(obj, state)] = value

    def drop_states(self, obj: str) -> None:
        for s in STATE_NAMES:
            self.overlay[(obj, s)] = False


STORE: Store | None = None
STATE_NAMES = ["s1", "other"]


def objkey(params: Any) -> str:
    kind = params["object_type"].split("/")[-1]
    if kind == "images":
        return f"{params['vms']}/{params['images']}"
    if kind == "vms":
        return f"{params['vms']}"
    return f"net:{params['nets']}"


def make_backend() -> Any:
    from avocado_i2n.states.setup import StateBackend

    class MemBackend(StateBackend):
        @classmethod
        def show(cls, params: Any, object: Any = None) -> list[str]:
            k = objkey(params)
            return [s for s in STATE_NAMES if STORE.has(k, s)]

        @classmethod
        def check_root(cls, params: Any, object: Any = None) -> bool:
            return STORE.has(objkey(params), "<root>")

        @classmethod
        def get_root(cls, params: Any, object: Any = None) -> None:
            STORE.calls.append(("get_root", objkey(params), ""))

        @classmethod
        def set_root(cls, params: Any, object: Any = None) -> None:
            k = objkey(params)
            STORE.calls.append(("set_root", k, ""))
            STORE.put(k, "<root>", True)

        @classmethod
        def unset_root(cls, params: Any, object: Any = None) -> None:
            k = objkey(params)
            STORE.calls.append(("unset_root", k, ""))
            STORE.put(k, "<root>", False)
            STORE.drop_states(k)

        @classmethod
        def get(cls, params: Any, object: Any = None) -> None:
            STORE.calls.append(("get", objkey(params), params["get_state"]))

        @classmethod
        def set(cls, params: Any, object: Any = None) -> None:
            k = objkey(params)
            STORE.calls.append(("set", k, params["set_state"]))
            STORE.put(k, params["set_state"], True)

        @classmethod
        def unset(cls, params: Any, object: Any = None) -> None:
            k = objkey(params)
            STORE.calls.append(("unset", k, params["unset_state"]))
            STORE.put(k, params["unset_state"], False)

    return MemBackend


class StubVM:
    def __init__(self, name: str) -> None:
        self.name = name
        self.destroyed = 0

    def destroy(self, gracefully: bool = True) -> None:
        self.destroyed += 1
        STORE.calls.append(("vm.destroy", self.name, ""))


class StubEnv:
    def __init__(self) -> None:
        self.vms: dict[str, StubVM] = {}

    def get_vm(self, name: str) -> StubVM:
        return self.vms.setdefault(name, StubVM(name))


OPS = ["check", "get", "set", "unset", "push", "pop"]
TYPES = ["nets", "vms", "images"]
TYPE_PATH = {"nets": "nets", "vms": "nets/vms", "images": "nets/vms/images"}
_cfg = {"max_vms": 2, "max_images": 2, "seq": 1, "check_modes": [None, "rr"], "ops": OPS}


def all_objects(n_vms: int, n_images: int) -> dict[str, list[str]]:
    vms = [f"vm{i + 1}" for i in range(n_vms)]
    return {"nets": ["net:net1"], "vms": vms, "images": [f"{v}/image{j + 1}" for v in vms for j in range(n_images)]}


def ref_check_root(store: Store, obj: str, kind: str, check_mode: Any, lets: Any, calls: list[Any]) -> tuple[bool, Any]:
    """Reference of the root prerequisite inside every state check: (root exists afterwards, exception or None)."""
    l1, l2 = lets
    if not store.has(obj, "<root>"):
        if l2 == "f":
            calls.append(("set_root", obj, ""))
            store.put(obj, "<root>", True)
            return True, None
        if l2 == "r":
            return False, "absent"
        return False, "TestError"
    if l1 == "f":
        if kind == "vms":
            calls.append(("vm.destroy", obj, ""))
        else:
            calls.append(("unset_root", obj, ""))
            store.put(obj, "<root>", False)
            store.drop_states(obj)
        calls.append(("set_root", obj, ""))
        store.put(obj, "<root>", True)
        return True, None
    calls.append(("get_root", obj, ""))
    return True, None


def _fn_factory():
    from avocado.core import exceptions
    from avocado_i2n.states import setup as ss
    from virttest.utils_params import Params

    col = common.Collector()
    backend = make_backend()

    def fn(eng: symx.Engine) -> Any:
        global STORE
        ss.BACKENDS = {"mem": backend}
        init = Initial()
        store = Store(init)
        ref = Store(init)
        STORE = store
        n_vms, n_images = _cfg["shapes"][eng.pick(len(_cfg["shapes"]), "shape")]
        objs = all_objects(n_vms, n_images)
        base = Params()
        base["nets"] = "net1"
        base["vms"] = " ".join(f"vm{i + 1}" for i in range(n_vms))
        base["images"] = " ".join(f"image{j + 1}" for j in range(n_images))
        base["states_chain"] = "nets vms images"
        for t in TYPES:
            base[f"states_{t}"] = "mem"
        env = StubEnv()
        history = []
        for step in range(_cfg["seq"]):
            params = base.copy()
            op = _cfg["ops"][eng.pick(len(_cfg["ops"]), f"op{step}")]
            simple = _cfg["seq"] > 1
            kind = "images" if simple else TYPES[eng.pick(3, f"type{step}")]
            state = ("s1", "root")[eng.pick(2, f"state_kind{step}")]
            targets = objs[kind]
            single = eng.pick(2, f"single{step}") == 1 and len(targets) > 1
            if single:
                addressed = [targets[-1]]
                suffix = "_" + "_".join(reversed(targets[-1].split("/")))  # image2_vm2 / vm2
                params[f"{op}_state_{kind}{suffix}"] = state
            else:
                addressed = list(targets)
                params[f"{op}_state_{kind}"] = state
            mode = SymMode(f"{op}_mode{step}")
            params[f"{op}_mode"] = mode
            cm = None
            if op != "check" and not simple:
                cm = _cfg["check_modes"][eng.pick(len(_cfg["check_modes"]), f"check_mode{step}")]
                if cm is not None:
                    params["check_mode"] = cm
            plain = not simple
            other_type = TYPE_PATH[TYPES[(TYPES.index(kind) + 1) % 3]]
            skip = [None, TYPE_PATH[kind], other_type][eng.pick(3, f"skip{step}")] if step == 0 and plain else None
            if skip:
                params["skip_types"] = skip
            readonly = eng.pick(2, f"readonly{step}") == 1 if kind == "images" and step == 0 and plain else False
            if readonly:
                params["image_readonly_image1_vm1"] = "yes"
            stale_unset = op == "set" and state == "s1" and not simple and eng.pick(2, f"stale_unset{step}") == 1
            if stale_unset:
                params["unset_state"] = "other"
            before_calls = len(store.calls)
            # ---- the real code
            raised = None
            result = None
            try:
                result = getattr(ss, f"{op}_states")(params, env)
            except exceptions.TestAbortError:
                raised = "TestAbortError"
            except exceptions.TestError:
                raised = "TestError"
            real_calls = store.calls[before_calls:]
            # ---- the specification on its own store over the same initial content
            want_calls, want_raise, want_result = reference(op, kind, state, addressed, objs, mode, cm, skip, readonly, ref)
            desc = {"op": op, "type": kind, "state": state, "addressed": addressed, "check_mode": cm, "skip_types": skip, "readonly_image1_vm1": readonly, "stale_unset_state": stale_unset, "vms": n_vms, "images": n_images}
            mutating_real = [c for c in real_calls if c[0] in ("set", "unset", "set_root", "unset_root")]
            mutating_want = [c for c in want_calls if c[0] in ("set", "unset", "set_root", "unset_root")]
            col.count("operations")
            if raised:
                col.count("raised")
            if mutating_real:
                col.count("mutating")
            letters = "".join(ch.value(eng) for ch in mode.letters)
            desc["mode_example"] = letters
            desc["present"] = {f"{k[0]}:{k[1]}": v for k, v in init.bits.items()}
            if cm not in (None, "rr", "rf"):
                # other values of the experimental check_mode are not documented (setup.py: "TODO: document after
                # experimental period"): only the clause that holds for every mode is asserted - nothing else is touched
                touched = {c[1] for c in real_calls if c[0] not in ("get_root",)}
                if not touched <= set(addressed):
                    raise symx.Violation(f"{op} touched objects that are not addressed: {sorted(touched - set(addressed))}", {"case": desc, "class": "touches unaddressed"})
                col.count("undocumented_check_mode")
                break
            if raised != want_raise:
                raise symx.Violation(f"{op} with mode like '{letters}': raised {raised}, documented outcome {want_raise or 'no error'}", {"case": desc, "class": f"{op} outcome"})
            if mutating_real != mutating_want:
                raise symx.Violation(f"{op} with mode like '{letters}': state-changing backend calls {mutating_real}, documented {mutating_want}", {"case": desc, "class": f"{op} actions"})
            if op == "check" and raised is None and bool(result) != bool(want_result):
                raise symx.Violation(f"check returned {result}, expected {want_result}", {"case": desc, "class": "check result"})
            reads_real = [c for c in real_calls if c[0] == "get"]
            reads_want = [c for c in want_calls if c[0] == "get"]
            if reads_real != reads_want:
                raise symx.Violation(f"{op} with mode like '{letters}': get calls {reads_real}, documented {reads_want}", {"case": desc, "class": f"{op} get actions"})
            touched = {c[1] for c in real_calls if c[0] not in ("get_root",)}
            allowed = set(addressed)
            if not touched <= allowed:
                raise symx.Violation(f"{op} touched objects that are not addressed: {sorted(touched - allowed)}", {"case": desc, "class": "touches unaddressed"})
            history.append(desc)
            if len(col.samples) < 3 and mutating_real:
                col.samples.append(desc)
            if raised:
                break
        return None

    def on_path(eng: symx.Engine, outcome: str, payload: Any) -> None:
        if outcome == "violation":
            col.violations.append((payload.what, payload.detail["class"], payload.detail))

    def collect() -> Any:
        col.functions = set(common.TRACER.seen)
        return col

    return fn, on_path, collect


class _Raise(Exception):
    def __init__(self, kind: str) -> None:
        self.kind = kind


def reference(op: str, kind: str, state: str, addressed: list[str], objs: dict[str, list[str]], mode: Any, cm: Any, skip: Any, readonly: bool, pre: Store) -> tuple[list[Any], Any, Any]:
    """The README policy table as a program over its own store: expected backend calls, exception and check result."""
    has = pre.has
    calls: list[Any] = []
    check_letters = (mode[0], mode[1]) if op == "check" else (tuple(cm) if cm else ("r", "f"))
    # iteration order of the real code: per vm its images then the vm, then the net
    order = []
    for v in objs["vms"]:
        order += [(o, "images") for o in objs["images"] if o.startswith(v + "/")]
        order.append((v, "vms"))
    order.append(("net:net1", "nets"))
    l1, l2 = mode[0], mode[1]

    def state_check(obj: str, okind: str) -> bool:
        root_ok, err = ref_check_root(pre, obj, okind, cm, check_letters, calls)
        if err == "TestError":
            raise _Raise("TestError")
        if err == "absent":
            return False
        if state in ROOTS:
            return root_ok
        return has(obj, state)

    def drop_root(obj: str) -> None:
        calls.append(("unset_root", obj, ""))
        pre.put(obj, "<root>", False)
        pre.drop_states(obj)

    def do_get(obj: str, okind: str) -> None:
        exists = state_check(obj, okind)
        if not exists:
            if l2 == "a":
                raise _Raise("TestAbortError")
            if l2 == "i":
                return
            raise _Raise("TestError")
        if l1 == "a":
            raise _Raise("TestAbortError")
        if l1 == "r":
            calls.append(("get_root", obj, "") if state in ROOTS else ("get", obj, state))
            return
        if l1 == "i":
            return
        raise _Raise("TestError")

    def do_set(obj: str, okind: str) -> None:
        exists = state_check(obj, okind)
        if exists:
            if l1 == "a":
                raise _Raise("TestAbortError")
            if l1 == "r":
                return
            if not (l1 == "f"):
                raise _Raise("TestError")
            if state in ROOTS:
                drop_root(obj)
            else:
                calls.append(("unset", obj, state))
                pre.put(obj, state, False)
        else:
            if l2 == "a":
                raise _Raise("TestAbortError")
            if not (l2 == "f"):
                raise _Raise("TestError")
            if state not in ROOTS and not has(obj, "<root>"):
                raise _Raise("TestError")
        if state in ROOTS:
            calls.append(("set_root", obj, ""))
            pre.put(obj, "<root>", True)
        else:
            calls.append(("set", obj, state))
            pre.put(obj, state, True)

    def do_unset(obj: str, okind: str) -> None:
        exists = state_check(obj, okind)
        if not exists:
            if l2 == "a":
                raise _Raise("TestAbortError")
            if l2 == "i":
                return
            raise _Raise("TestError")
        if l1 == "r":
            return
        if not (l1 == "f"):
            raise _Raise("TestError")
        if state in ROOTS:
            drop_root(obj)
        else:
            calls.append(("unset", obj, state))
            pre.put(obj, state, False)

    try:
        for obj, okind in order:
            if okind != kind or obj not in addressed:
                continue
            if skip == TYPE_PATH[okind]:
                continue
            if okind == "images" and readonly and obj == "vm1/image1":
                continue
            if op in ("push", "pop") and state in ROOTS:
                continue
            if op == "check":
                if not state_check(obj, okind):
                    return calls, None, False
            elif op == "get":
                do_get(obj, okind)
            elif op in ("set", "push"):
                do_set(obj, okind)
            elif op == "unset":
                do_unset(obj, okind)
            elif op == "pop":
                do_get(obj, okind)
                do_unset(obj, okind)
    except _Raise as r:
        return calls, r.kind, None
    return calls, None, True


def replay(data: dict[str, Any]) -> tuple[bool, str]:
    """Concrete re-run of one case with a plain two-letter mode and a plain store."""
    from avocado.core import exceptions
    from avocado_i2n.states import setup as ss
    from virttest.utils_params import Params

    global STORE
    case = data["case"]

    ss.BACKENDS = {"mem": make_backend()}
    outcomes = []
    for which in ("real",):
        STORE = Store(Initial(case["present"]))
        params = Params()
        params["nets"] = "net1"
        params["vms"] = " ".join(f"vm{i + 1}" for i in range(case["vms"]))
        params["images"] = " ".join(f"image{j + 1}" for j in range(case["images"]))
        params["states_chain"] = "nets vms images"
        for t in TYPES:
            params[f"states_{t}"] = "mem"
        op, kind, state = case["op"], case["type"], case["state"]
        objs = all_objects(case["vms"], case["images"])
        if len(case["addressed"]) == 1 and len(objs[kind]) > 1:
            suffix = "_" + "_".join(reversed(case["addressed"][0].split("/")))
            params[f"{op}_state_{kind}{suffix}"] = state
        else:
            params[f"{op}_state_{kind}"] = state
        params[f"{op}_mode"] = case["mode_example"]
        if case["check_mode"]:
            params["check_mode"] = case["check_mode"]
        if case["skip_types"]:
            params["skip_types"] = case["skip_types"]
        if case["readonly_image1_vm1"]:
            params["image_readonly_image1_vm1"] = "yes"
        if case["stale_unset_state"]:
            params["unset_state"] = "other"
        raised, result = None, None
        try:
            result = getattr(ss, f"{op}_states")(params, StubEnv())
        except exceptions.TestAbortError:
            raised = "TestAbortError"
        except exceptions.TestError:
            raised = "TestError"
        outcomes.append((raised, result, [c for c in STORE.calls if c[0] != "get_root"]))
    raised, result, calls = outcomes[0]

    # the reference with concrete letters
    class CM:
        def __init__(self, s: str) -> None:
            self.s = s

        def __getitem__(self, i: int) -> str:
            return self.s[i]

    want_calls, want_raise, want_result = reference(case["op"], case["type"], case["state"], case["addressed"], all_objects(case["vms"], case["images"]), CM(case["mode_example"]), case["check_mode"], case["skip_types"], case["readonly_image1_vm1"], Store(Initial(case["present"])))
    want_calls = [c for c in want_calls if c[0] != "get_root"]
    bad = raised != want_raise or calls != want_calls or (case["op"] == "check" and raised is None and bool(result) != bool(want_result))
    return bad, f"real: raised={raised} result={result} calls={calls}; documented: raised={want_raise} result={want_result} calls={want_calls}"


def run(ctx: common.Context) -> None:
    _cfg["check_modes"] = [None, "rr"] if not ctx.thorough else [None, "rr", "ff", "rx", "fr"]
    rounds = [
        ("single operations", [(1, 1), (2, 1), (1, 2)] if not ctx.thorough else [(1, 1), (2, 1), (1, 2), (2, 2)], 1),
        ("operation sequences", [(1, 1)], 2 if not ctx.thorough else 3),
    ]
    for name, shapes, seq in rounds:
        _cfg["shapes"], _cfg["seq"] = shapes, seq
        exhausted, stats, collected, err = symx.explore_parallel(_fn_factory, seed=ctx.seed, split_depth=5, deadline=ctx.deadline(80, 700))
        ctx.add_stats(stats)
        counters = common.merge_collected(ctx, collected)
        ctx.part(name, exhausted=exhausted, paths=stats.paths, counters=counters, shapes=shapes, sequence_length=seq)
        if err:
            ctx.note_inconclusive(err)
        if not exhausted:
            ctx.exhaustive = False
        if counters.get("raised", 0) == 0 or counters.get("mutating", 0) == 0:
            ctx.note_inconclusive("vacuous: no aborting or no state-changing operation explored")
        for c in collected:
            for what, cls, detail in c.violations:
                ctx.report(f"C12 {cls}", what + f" [{ {k: v for k, v in detail['case'].items() if k != 'present'} }]", detail, replay if seq == 1 else None)
    ctx.bounds = {"operations": _cfg["ops"], "mode_letters": "2 symbolic characters a..z", "state": ["ordinary name", "root keyword"], "types": TYPES, "addressing": ["all objects of the type", "last object only"], "vms x images_per_vm": [r[1] for r in rounds], "check_mode": _cfg["check_modes"], "skip_types": [None, "nets/vms/images", "nets/vms", "nets"], "readonly": "image1 of vm1", "sequence_length": [r[2] for r in rounds]}
    ctx.assumptions = ["in-memory backend registered in BACKENDS (show/check_root/get/set/unset and root variants); env.get_vm returns a stub vm", "reference model written from the README policy table and the documented root handling of check_mode (default 'rf')"]
    ctx.coverage["explanation"] = "symbolic execution of the real state operations with symbolic mode letters and presence bits; the README policy table as a reference program over the same symbolic letters; per path the raised exception, state-changing backend calls and touched objects are compared"

"""
Inductive-step harnesses on real parsed nodes (C03 b, C04 b).

A real setup node with bridged copies for several workers (localhost lxc workers and
remote workers of two clusters) is put into an arbitrary state - which copies are
started, which results every copy holds - and one decision of the real code is taken
with ``max_tries`` / ``max_concurrent_tries`` symbolic integers.  The scope semantics of
the property (global; per swarm without "cluster" under the remote spawner; per worker
without "swarm" under lxc) is an independent oracle; the implication is discharged as
a z3 validity query, so one path covers every value of the symbolic setting.
"""

from __future__ import annotations

import itertools
from typing import Any

import z3

from engine import symx
from . import common, trav

_cache: dict[str, Any] = {}
NETS = {"lxc": "net1 net2 net3", "remote": "cluster1.net6 cluster1.net7 cluster2.net6"}
SCOPES = ["own swarm cluster shared", "own cluster shared", "own swarm shared", "own shared"]


def get_copies(kind: str) -> tuple[Any, list[Any]]:
    """Real bridged copies of the 'customize' setup node for three workers."""
    if kind not in _cache:
        trav.install()
        run = trav.prepare(symx.Engine(), trav.menu("G1", lazy=False, nets=NETS[kind]), trav.Config())
        g = run.graph
        copies = sorted([n for n in g.nodes if not n.is_flat() and ".customize." in n.params["shortname"] and "on_customize" not in n.params["shortname"]], key=lambda n: n.params["name"])
        from avocado_i2n.cartgraph import TestSwarm

        _cache[kind] = (g, copies, dict(TestSwarm.run_swarms))
    g, copies, swarms = _cache[kind]
    from avocado_i2n.cartgraph import TestSwarm

    TestSwarm.run_swarms = swarms
    return g, copies


def in_scope(kind: str, pool_scope: str, me: Any, other: Any) -> bool:
    """Does worker ``other`` share setup with worker ``me`` under the documented scope semantics?"""
    scopes = pool_scope.split()
    if kind == "lxc" and "swarm" not in scopes:
        return other is me
    if kind == "remote" and "cluster" not in scopes:
        return other.swarm_id == me.swarm_id
    return True


def _occupied_factory():
    col = common.Collector()

    def fn(eng: symx.Engine) -> Any:
        kind = ("lxc", "remote")[eng.pick(2, "spawner")]
        pool_scope = SCOPES[eng.pick(len(SCOPES), "pool_scope")]
        g, copies = get_copies(kind)
        workers = [g.workers[c.params["nets"]] for c in copies]
        me_idx = eng.pick(len(copies), "acting_worker")
        node, me = copies[me_idx], workers[me_idx]
        setting = eng.pick(3, "limit_setting")  # 0: both unset, 1: max_tries only, 2: max_concurrent_tries (and max_tries)
        saved = [(c._params_cache, c.started_worker, c.finished_worker, list(c.results)) for c in copies]
        try:
            started = []
            for i, c in enumerate(copies):
                c._params_cache = c._params_cache.copy()
                c._params_cache["pool_scope"] = pool_scope
                for k in ("max_tries", "max_concurrent_tries"):
                    if k in c._params_cache:
                        del c._params_cache[k]
                s = bool(symx.SymBool(name=f"started_{i}")) if i != me_idx else False
                c.started_worker = workers[i] if s else None
                started.append(s)
            mt = mct = None
            if setting >= 1:
                mt = symx.sym_int("max_tries", -1, 5)
                node._params_cache["max_tries"] = mt
            if setting == 2:
                mct = symx.sym_int("max_concurrent_tries", -1, 5)
                node._params_cache["max_concurrent_tries"] = mct
            occupied = node.is_occupied(me)
            count = sum(1 for i, s in enumerate(started) if s and in_scope(kind, pool_scope, me, workers[i]))
            limit_z = mct.z if mct is not None else (mt.z if mt is not None else z3.IntVal(1))
            limit_z = z3.If(limit_z >= 1, limit_z, 1)
            occ_z = occupied.z if isinstance(occupied, symx.SymBool) else z3.BoolVal(bool(occupied))
            desc = {"spawner": kind, "pool_scope": pool_scope, "acting": me.id, "started": [workers[i].id for i, s in enumerate(started) if s], "in_scope_started": count, "setting": ["unset", "max_tries", "max_concurrent_tries"][setting]}
            col.count("occupation_decisions")
            # the node is refused exactly when the scope already holds the allowed number of executors
            if not eng.prove(occ_z == (z3.IntVal(count) >= limit_z), "occupied <=> started in scope >= limit"):
                m = eng.last_model
                desc["max_tries"] = m.eval(mt.z, model_completion=True).as_long() if mt is not None else None
                desc["max_concurrent_tries"] = m.eval(mct.z, model_completion=True).as_long() if mct is not None else None
                raise symx.Violation(f"is_occupied={occupied} with {count} workers of the scope executing and limit settings {desc['max_tries']}/{desc['max_concurrent_tries']}", {"case": desc, "class": "occupation decision"})
            if count:
                col.count("with_started_in_scope")
            if len(col.samples) < 2 and count:
                col.samples.append(desc)
            return None
        finally:
            for c, (p, sw, fw, res) in zip(copies, saved):
                c._params_cache, c.started_worker, c.finished_worker, c.results = p, sw, fw, res

    def on_path(eng: symx.Engine, outcome: str, payload: Any) -> None:
        if outcome == "violation":
            col.violations.append((payload.what, payload.detail["class"], payload.detail))

    def collect() -> Any:
        col.functions = set(common.TRACER.seen)
        return col

    return fn, on_path, collect


def replay_occupied(data: dict[str, Any]) -> tuple[bool, str]:
    case = data["case"]
    g, copies = get_copies(case["spawner"])
    workers = [g.workers[c.params["nets"]] for c in copies]
    me_idx = [w.id for w in workers].index(case["acting"])
    saved = [(c._params_cache, c.started_worker) for c in copies]
    try:
        for i, c in enumerate(copies):
            c._params_cache = c._params_cache.copy()
            c._params_cache["pool_scope"] = case["pool_scope"]
            for k in ("max_tries", "max_concurrent_tries"):
                if k in c._params_cache:
                    del c._params_cache[k]
            c.started_worker = workers[i] if workers[i].id in case["started"] else None
        node = copies[me_idx]
        if case.get("max_tries") is not None:
            node._params_cache["max_tries"] = str(case["max_tries"])
        if case.get("max_concurrent_tries") is not None:
            node._params_cache["max_concurrent_tries"] = str(case["max_concurrent_tries"])
        got = node.is_occupied(workers[me_idx])
        limit = case.get("max_concurrent_tries") if case.get("max_concurrent_tries") is not None else (case.get("max_tries") if case.get("max_tries") is not None else 1)
        want = case["in_scope_started"] >= max(1, limit)
        return bool(got) != want, f"is_occupied={got}, {case['in_scope_started']} started in scope, limit {max(1, limit)}"
    finally:
        for c, (p, sw) in zip(copies, saved):
            c._params_cache, c.started_worker = p, sw


STATUS_MENU = ["PASS", "FAIL", "UNKNOWN"]
_cfg = {"max_results": 2}


def _budget_factory():
    col = common.Collector()

    def fn(eng: symx.Engine) -> Any:
        kind = ("lxc", "remote")[eng.pick(2, "spawner")]
        pool_scope = SCOPES[eng.pick(len(SCOPES), "pool_scope")]
        g, copies = get_copies(kind)
        workers = [g.workers[c.params["nets"]] for c in copies]
        me_idx = eng.pick(len(copies), "acting_worker")
        node, me = copies[me_idx], workers[me_idx]
        saved = [(c._params_cache, c.started_worker, c.finished_worker, c.results, c.__dict__.get("should_rerun")) for c in copies]
        try:
            counts = []
            for i, c in enumerate(copies):
                c._params_cache = c._params_cache.copy()
                c._params_cache["pool_scope"] = pool_scope
                for k in ("max_tries", "max_concurrent_tries", "rerun_status", "stop_status", "replay"):
                    if k in c._params_cache:
                        del c._params_cache[k]
                n = symx.choose(_cfg["max_results"] + 1, f"n_results_{i}")
                c.results = [{"name": c.params["name"], "status": STATUS_MENU[symx.choose(len(STATUS_MENU), f"status_{i}_{j}")]} for j in range(n)]
                c.started_worker = None
                counts.append(n)
            m = symx.sym_int("max_tries", 0, 6)
            node._params_cache["max_tries"] = m
            rerun = node.should_rerun(me)
            in_scope_runs = sum(n for i, n in enumerate(counts) if in_scope(kind, pool_scope, me, workers[i]))
            got = rerun.z if isinstance(rerun, symx.SymBool) else z3.BoolVal(bool(rerun))
            desc = {"spawner": kind, "pool_scope": pool_scope, "acting": me.id, "results": {workers[i].id: [r["status"] for r in c.results] for i, c in enumerate(copies)}, "runs_in_scope": in_scope_runs}
            col.count("rerun_decisions")
            # another try is granted only while the scope has spent fewer than max_tries runs (in-flight ones included)
            if not eng.prove(z3.Implies(got, z3.And(m.z >= 2, z3.IntVal(in_scope_runs) < m.z)), "rerun => budget left in scope"):
                desc["max_tries"] = eng.last_model.eval(m.z, model_completion=True).as_long()
                raise symx.Violation(f"a rerun is granted with {in_scope_runs} runs spent in the scope and max_tries={desc['max_tries']}", {"case": desc, "class": "budget exceeded"})
            if not eng.prove(z3.Implies(z3.And(m.z >= 2, z3.IntVal(in_scope_runs) < m.z), got), "budget left => rerun (default rerun/stop sets)"):
                desc["max_tries"] = eng.last_model.eval(m.z, model_completion=True).as_long()
                raise symx.Violation(f"no rerun although only {in_scope_runs} of max_tries={desc['max_tries']} runs are spent in the scope", {"case": desc, "class": "budget withheld"})
            if in_scope_runs:
                col.count("with_runs_in_scope")
            if len(col.samples) < 2 and in_scope_runs >= 2:
                col.samples.append(desc)
            return None
        finally:
            for c, (p, sw, fw, res, sr) in zip(copies, saved):
                c._params_cache, c.started_worker, c.finished_worker, c.results = p, sw, fw, res
                if sr is None:
                    c.__dict__.pop("should_rerun", None)
                else:
                    c.should_rerun = sr

    def on_path(eng: symx.Engine, outcome: str, payload: Any) -> None:
        if outcome == "violation":
            col.violations.append((payload.what, payload.detail["class"], payload.detail))

    def collect() -> Any:
        col.functions = set(common.TRACER.seen)
        return col

    return fn, on_path, collect


def replay_budget(data: dict[str, Any]) -> tuple[bool, str]:
    case = data["case"]
    g, copies = get_copies(case["spawner"])
    workers = [g.workers[c.params["nets"]] for c in copies]
    me_idx = [w.id for w in workers].index(case["acting"])
    saved = [(c._params_cache, c.started_worker, c.results) for c in copies]
    try:
        for i, c in enumerate(copies):
            c._params_cache = c._params_cache.copy()
            c._params_cache["pool_scope"] = case["pool_scope"]
            for k in ("max_tries", "max_concurrent_tries", "rerun_status", "stop_status", "replay"):
                if k in c._params_cache:
                    del c._params_cache[k]
            c.results = [{"name": c.params["name"], "status": s} for s in case["results"][workers[i].id]]
            c.started_worker = None
        node = copies[me_idx]
        node._params_cache["max_tries"] = str(case["max_tries"])
        got = bool(node.should_rerun(workers[me_idx]))
        want = case["max_tries"] >= 2 and case["runs_in_scope"] < case["max_tries"]
        return got != want, f"should_rerun={got}, {case['runs_in_scope']} runs in scope, max_tries={case['max_tries']}"
    finally:
        for c, (p, sw, res) in zip(copies, saved):
            c._params_cache, c.started_worker, c.results = p, sw, res


def run_step(ctx: common.Context, which: str, quick_s: float, thorough_s: float) -> None:
    factory, replay, vac = {"occupied": (_occupied_factory, replay_occupied, "with_started_in_scope"), "budget": (_budget_factory, replay_budget, "with_runs_in_scope")}[which]
    global STATUS_MENU
    _cfg["max_results"] = 3 if ctx.thorough else 2
    STATUS_MENU = ["PASS", "FAIL", "UNKNOWN"] if ctx.thorough else ["PASS", "UNKNOWN"]
    # warm the per-process caches before forking
    get_copies("lxc")
    get_copies("remote")
    exhausted, stats, collected, err = symx.explore_parallel(factory, seed=ctx.seed, split_depth=4, deadline=ctx.deadline(quick_s, thorough_s))
    ctx.add_stats(stats)
    counters = common.merge_collected(ctx, collected)
    ctx.part(f"inductive step: {which}", exhausted=exhausted, paths=stats.paths, counters=counters, bounds={"workers": NETS, "pool_scope": SCOPES, "settings": "symbolic integers", "results_per_copy": f"<= {_cfg['max_results']} over {STATUS_MENU}" if which == "budget" else None})
    if err:
        ctx.note_inconclusive(err)
    if not exhausted:
        ctx.exhaustive = False
    if counters.get(vac, 0) == 0:
        ctx.note_inconclusive(f"vacuous step harness {which}")
    for c in collected:
        for what, cls, detail in c.violations:
            ctx.report(f"{ctx.pid} step {cls}", what + f" [{detail['case']}]", detail, replay)

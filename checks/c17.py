"""
C17 - a vm state exists exactly when all of the vm's images have it; on/off
snapshots are told apart by their recorded vm-state size.

(a) path exploration of the real ``QCOW2VTBackend.show`` and
    ``RamfileBackend._show`` with the image listing boundary stubbed: presence
    of each (image, state) and of each memory file is a solver variable, the
    order of each listing a permutation.
(b) source-to-SMT: the two live compiled patterns QEMU_ON_STATES_REGEX and
    QEMU_OFF_STATES_REGEX are translated (``re._parser`` tree -> z3 regular
    expressions) and compared with the grammar of a qemu-img snapshot row by
    language-emptiness / decomposition queries.
"""

from __future__ import annotations

import itertools
import os
import time
from typing import Any

import z3

from engine import smtgen, symx
from . import chrun, common

STATE_NAMES = ["launch", "boot.v2", "with-dash"]


def listing_text(names: list[str], on: bool) -> str:
    out = "Snapshot list:\nID        TAG               VM SIZE                DATE     VM CLOCK     ICOUNT\n"
    for i, n in enumerate(names):
        size = "1.5 GiB" if on else "0 B"
        out += f"{i + 1}         {n}         {size} 2024-01-0{i + 1} 10:00:00   00:00:0{i}.000\n"
    return out


def _params(n_images: int):
    from virttest.utils_params import Params

    images = " ".join(f"image{i + 1}" for i in range(n_images))
    return Params({"vms": "vm1", "images": images, "images_base_dir": "/images", "swarm_pool": "/pool", "object_id": "vm1-abc"})


def run_show(kind: str, listings: list[list[str]], memfiles: list[str] | None) -> Any:
    """Run the real show on concrete listings (used by exploration and replay)."""
    from avocado_i2n.states import qcow2, ramfile

    params = _params(len(listings))
    by_image = {f"image{i + 1}": l for i, l in enumerate(listings)}
    if kind == "qcow2vt":

        class FakeQemuImg:
            def __init__(self, p: Any, root: str, tag: str) -> None:
                self.tag = tag

            def snapshot_list(self, force_share: bool = False) -> str:
                return listing_text(by_image[self.tag], on=True)

        saved = qcow2.QemuImg
        qcow2.QemuImg = FakeQemuImg
        try:
            return qcow2.QCOW2VTBackend.show(params, None)
        finally:
            qcow2.QemuImg = saved
    else:

        class ImgBackend:
            @staticmethod
            def show(p: Any, object: Any = None) -> list[str]:
                return list(by_image[p["images"]])

        class FakeStat:
            st_size = 4096

        class FakeOs:
            path = os.path

            @staticmethod
            def listdir(d: str) -> list[str]:
                return [m + ".state" for m in memfiles or []] + ["stray.txt"]

            @staticmethod
            def stat(p: str) -> Any:
                return FakeStat()

        saved_os, saved_b = ramfile.os, ramfile.RamfileBackend.image_state_backend
        ramfile.os = FakeOs
        ramfile.RamfileBackend.image_state_backend = ImgBackend
        try:
            return ramfile.RamfileBackend._show(params, None)
        finally:
            ramfile.os = saved_os
            ramfile.RamfileBackend.image_state_backend = saved_b


def expected(listings: list[list[str]], memfiles: list[str] | None) -> set[str]:
    s = set(listings[0])
    for l in listings[1:]:
        s &= set(l)
    if memfiles is not None:
        s &= set(memfiles)
    return s


def _verdict(kind: str, listings: list[list[str]], memfiles: list[str] | None) -> tuple[bool, str, str]:
    """(ok, fingerprint-class, message)"""
    want = expected(listings, memfiles)
    try:
        got = run_show(kind, listings, memfiles)
    except Exception as e:
        first = "first_listing_nonempty" if listings[0] else "first_listing_empty"
        return False, f"raises_{type(e).__name__} images>=2 {first}", f"{type(e).__name__}: {e}"
    got_l = list(got)
    if len(got_l) != len(set(got_l)):
        return False, "duplicate", f"listed twice: {got_l}"
    if set(got_l) != want:
        extra, missing = set(got_l) - want, want - set(got_l)
        cls = "lists_partial_state" if extra else "omits_complete_state"
        if extra and not listings[0]:
            cls += " first_listing_empty"
        return False, cls, f"got {sorted(got_l)}, every-image intersection is {sorted(want)}"
    return True, "", ""


_cfg = {"max_images": 3, "full_orders_upto": 2}


def _show_factory():
    col = common.Collector()

    def fn(eng: symx.Engine) -> Any:
        kind = ("qcow2vt", "ramfile")[eng.pick(2, "backend")]
        n_images = symx.choose(_cfg["max_images"], "n_images") + 1
        listings = []
        for i in range(n_images):
            present = [n for n in STATE_NAMES if symx.SymBool(name=f"has_{i}_{n}")]
            order = list(present)
            perm = []
            if n_images <= _cfg["full_orders_upto"]:
                while order:
                    perm.append(order.pop(eng.pick(len(order), f"order{i}_{len(perm)}")))
            else:
                perm = order if eng.pick(2, f"reversed{i}") == 0 or len(order) < 2 else order[::-1]
            listings.append(perm)
        memfiles = None
        if kind == "ramfile":
            memfiles = [n for n in STATE_NAMES if symx.SymBool(name=f"mem_{n}")]
        ok, cls, msg = _verdict(kind, listings, memfiles)
        col.count("shows")
        if expected(listings, memfiles):
            col.count("nonempty_expected")
        if len(col.samples) < 2 and n_images > 1:
            col.samples.append({"backend": kind, "listings": listings, "memory_files": memfiles, "expected": sorted(expected(listings, memfiles))})
        if not ok:
            site = "QCOW2VTBackend.show" if kind == "qcow2vt" else "RamfileBackend._show"
            raise symx.Violation(f"{site}: {msg}", {"kind": kind, "listings": listings, "memfiles": memfiles, "class": f"{site} {cls}"})
        return None

    def on_path(eng: symx.Engine, outcome: str, payload: Any) -> None:
        if outcome == "violation":
            col.violations.append((payload.what, payload.detail["class"], payload.detail))

    def collect() -> Any:
        col.functions = set(common.TRACER.seen)
        return col

    return fn, on_path, collect


def replay(data: dict[str, Any]) -> tuple[bool, str]:
    if "line" in data:
        return replay_regex(data)
    ok, cls, msg = _verdict(data["kind"], data["listings"], data["memfiles"])
    return (not ok), (msg or "show agrees with the intersection")


# ---------------------------------------------------------------------------
# (b) the two patterns against the qemu-img row grammar


OPEN, CLOSE = "\x01", "\x02"


def row_grammar(tolerant: bool = False, marked: bool = False) -> dict[str, z3.ReRef]:
    """
    Grammar of one row of ``qemu-img snapshot -l`` (qemu >= 2.12 ``size_to_str``:
    "%0.3g %sB" of a value in [0.977, 1000), "0 B" for zero).

    ``tolerant``: the two group markers may occur anywhere (inverse image of marker erasure);
    ``marked``: the markers stand exactly around the TAG column.
    """
    U, C, P, O = z3.Union, z3.Concat, z3.Plus, z3.Option
    M = z3.Star(U(z3.Re(OPEN), z3.Re(CLOSE)))

    def prim(r: z3.ReRef) -> z3.ReRef:
        return C(M, r) if tolerant else r

    def lit(text: str) -> z3.ReRef:
        parts = [prim(z3.Re(ch)) for ch in text]
        return parts[0] if len(parts) == 1 else C(*parts)

    def loop(r: z3.ReRef, lo: int, hi: int) -> z3.ReRef:
        return z3.Loop(r, lo, hi)

    digit = prim(z3.Range("0", "9"))
    nz = prim(z3.Range("1", "9"))
    sp = P(lit(" "))
    tagc = prim(U(z3.Range("a", "z"), z3.Range("A", "Z"), z3.Range("0", "9"), z3.Re("_"), z3.Re("."), z3.Re("-")))
    tag = P(tagc)
    ident = loop(digit, 1, 4)
    d2 = C(digit, digit)
    number = U(
        C(lit("0.9"), loop(digit, 1, 2)),
        C(nz, O(C(lit("."), loop(digit, 1, 2)))),
        C(nz, digit, O(C(lit("."), digit))),
        C(nz, digit, digit),
        lit("1e+03"),
    )
    unit = U(*[lit(u) for u in ("B", "KiB", "MiB", "GiB", "TiB", "PiB", "EiB")])
    nonzero = C(number, lit(" "), unit)
    zero = lit("0 B")
    date = C(d2, d2, lit("-"), d2, lit("-"), d2, lit(" "), d2, lit(":"), d2, lit(":"), d2)
    clock = C(loop(digit, 2, 4), lit(":"), d2, lit(":"), d2, lit("."), loop(digit, 3, 3))
    icount = O(C(sp, U(P(digit), lit("--"))))
    tail = C(sp, date, sp, clock, icount)
    if tolerant:
        tail = C(tail, M)
    mtag = C(z3.Re(OPEN), tag, z3.Re(CLOSE)) if marked else tag
    return {
        "row_zero": C(ident, sp, mtag, sp, zero, tail),
        "row_nonzero": C(ident, sp, mtag, sp, nonzero, tail),
    }


def marked_pattern_language(tr: smtgen.Translated) -> z3.ReRef:
    """Search language of a start-anchored pattern with markers written around group 1."""
    from engine.smtgen import sre_c

    items = []
    for op, arg in tr.items:
        if op == sre_c.SUBPATTERN and arg[0] == 1:
            items += [(sre_c.LITERAL, ord(OPEN)), (op, arg), (sre_c.LITERAL, ord(CLOSE))]
        else:
            items.append((op, arg))
    items.append((sre_c.MAX_REPEAT, (0, sre_c.MAXREPEAT, [(sre_c.ANY, None)])))
    assert tr.anchored_start
    return smtgen.seq_to_z3(items)


CONCRETE_TAGS = ["a", "with-dash", "boot.v2", "0", "10", "x_0", "B", "2024-01-01"]
CONCRETE_NONZERO = ["0.977 GiB", "1 KiB", "1.5 GiB", "12.3 MiB", "999 B", "1e+03 MiB", "100 GiB", "9.99 TiB"]


def _solver(timeout_s: int) -> z3.Solver:
    s = z3.Solver()
    s.set("timeout", timeout_s * 1000)
    return s


def regex_queries(ctx: common.Context, budget_s: int) -> None:
    from avocado_i2n.states import qcow2

    g = row_grammar()
    on_tr = smtgen.Translated(qcow2.QEMU_ON_STATES_REGEX)
    off_tr = smtgen.Translated(qcow2.QEMU_OFF_STATES_REGEX)
    L_on, L_off = on_tr.search_language(), off_tr.search_language()
    x = z3.String("line")
    g_any, g_good = row_grammar(tolerant=True), row_grammar(marked=True)
    queries = [
        ("a zero-size row is matched by the OFF pattern", z3.InRe(x, g["row_zero"]), z3.Not(z3.InRe(x, L_off)), "off_misses_zero"),
        ("a zero-size row is not matched by the ON pattern", z3.InRe(x, g["row_zero"]), z3.InRe(x, L_on), "on_matches_zero"),
        ("a nonzero-size row is matched by the ON pattern", z3.InRe(x, g["row_nonzero"]), z3.Not(z3.InRe(x, L_on)), "on_misses_nonzero"),
        ("a nonzero-size row is not matched by the OFF pattern", z3.InRe(x, g["row_nonzero"]), z3.InRe(x, L_off), "off_matches_nonzero"),
        # extraction: in every way the pattern can match a row, group 1 is exactly the TAG column
        ("the OFF pattern extracts exactly the tag of a zero-size row", z3.And(z3.InRe(x, marked_pattern_language(off_tr)), z3.InRe(x, g_any["row_zero"])), z3.Not(z3.InRe(x, g_good["row_zero"])), "off_extracts_tag"),
        ("the ON pattern extracts exactly the tag of a nonzero-size row", z3.And(z3.InRe(x, marked_pattern_language(on_tr)), z3.InRe(x, g_any["row_nonzero"])), z3.Not(z3.InRe(x, g_good["row_nonzero"])), "on_extracts_tag"),
    ]
    results = {}
    for what, assume, negated, key in queries:
        ctx.obligations += 1
        s = _solver(budget_s)
        s.add(assume, negated)
        t0 = time.time()
        r = str(s.check())
        dt = time.time() - t0
        ctx.stats.solver_s += dt
        results[key] = {"result": r, "seconds": round(dt, 2)}
        if r == "unsat":
            ctx.stats.checks_unsat += 1
            ctx.discharged += 1
        elif r == "sat" and key.endswith("extracts_tag"):
            # the query ranges over every decomposition the pattern admits; the backtracking
            # matcher reports one of them, so a counter-model only counts if re picks it
            ctx.stats.checks_sat += 1
            reproduced = False
            for _ in range(25):
                line = smtgen._unescape(s.model()[x].as_string())
                ok, _msg = replay_regex({"line": line, "key": key})
                if ok:
                    ctx.report(f"C17 regex {key}", f"{what} - fails for the row {line!r}", {"line": line, "key": key}, replay_regex)
                    reproduced = True
                    break
                s.add(x != z3.StringVal(line))
                if str(s.check()) != "sat":
                    break
            if not reproduced:
                ctx.exhaustive = False
                results[key]["note"] = "ambiguous decompositions exist, the matcher's own choice was right on every counter-model examined"
        elif r == "sat":
            ctx.stats.checks_sat += 1
            line = smtgen._unescape(s.model()[x].as_string())
            ctx.report(f"C17 regex {key}", f"{what} - fails for the row {line!r}", {"line": line, "key": key}, replay_regex)
        else:
            ctx.stats.checks_unknown += 1
            ctx.note_inconclusive(f"regex query '{what}': solver {r}")
    # reachability twins: the grammars are inhabited, the patterns do match members,
    # and the marked languages intersect (so the extraction queries are not vacuous)
    twins = [
        ("row_zero", z3.And(z3.InRe(x, g["row_zero"]), z3.InRe(x, L_off))),
        ("row_nonzero", z3.And(z3.InRe(x, g["row_nonzero"]), z3.InRe(x, L_on))),
        ("marked_zero", z3.And(z3.InRe(x, marked_pattern_language(off_tr)), z3.InRe(x, g_good["row_zero"]))),
        ("marked_nonzero", z3.And(z3.InRe(x, marked_pattern_language(on_tr)), z3.InRe(x, g_good["row_nonzero"]))),
    ]
    for key, cond in twins:
        s = _solver(budget_s)
        s.add(cond)
        r = str(s.check())
        results["witness_" + key] = r
        if r != "sat":
            ctx.note_inconclusive(f"vacuity: no witness for {key} ({r})")
        else:
            ctx.sample({"regex_witness": key, "line": smtgen._unescape(s.model()[x].as_string())})
    # validate grammar and translation against the implementation: realistic rows
    # through the real findall (multi-row listings), the grammar and the z3 languages
    validated = 0
    for on, sizes in ((False, ["0 B"]), (True, CONCRETE_NONZERO)):
        rows = []
        for i, (tag, size) in enumerate(itertools.product(CONCRETE_TAGS, sizes)):
            rows.append(f"{i + 1}         {tag}   {size} 2024-01-01 10:00:00   00:00:10.123")
        lang = g["row_nonzero" if on else "row_zero"]
        for row in rows:
            validated += 1
            member = z3.is_true(z3.simplify(z3.InRe(z3.StringVal(row), lang)))
            in_on = z3.is_true(z3.simplify(z3.InRe(z3.StringVal(row), L_on)))
            in_off = z3.is_true(z3.simplify(z3.InRe(z3.StringVal(row), L_off)))
            real_on = qcow2.QEMU_ON_STATES_REGEX.search(row) is not None
            real_off = qcow2.QEMU_OFF_STATES_REGEX.search(row) is not None
            if not member or in_on != real_on or in_off != real_off:
                ctx.note_inconclusive(f"encoding disagrees with re on {row!r}: grammar={member} z3 on/off={in_on}/{in_off} re on/off={real_on}/{real_off}")
        listing = "Snapshot list:\nID        TAG               VM SIZE                DATE     VM CLOCK     ICOUNT\n" + "\n".join(rows) + "\n"
        got_on = [t[0] for t in qcow2.QEMU_ON_STATES_REGEX.findall(listing)]
        got_off = [t[0] for t in qcow2.QEMU_OFF_STATES_REGEX.findall(listing)]
        tags = [r.split()[1] for r in rows]
        want_on, want_off = (tags, []) if on else ([], tags)
        if got_on != want_on or got_off != want_off:
            ctx.report("C17 regex listing", f"real findall on a {len(rows)}-row listing of realistic rows: on-matches={len(got_on)} off-matches={len(got_off)}, expected {'on' if on else 'off'}={len(tags)} (first tags {tags[:3]})", {"line": listing, "key": "listing", "on": on}, replay_regex)
    ctx.coverage["traces_validated_against_impl"] = validated
    ctx.part("regex", queries=results, patterns=[qcow2.QEMU_ON_STATES_REGEX.pattern, qcow2.QEMU_OFF_STATES_REGEX.pattern])


def replay_regex(data: dict[str, Any]) -> tuple[bool, str]:
    from avocado_i2n.states import qcow2

    line, key = data["line"], data["key"]
    on = qcow2.QEMU_ON_STATES_REGEX.findall(line)
    off = qcow2.QEMU_OFF_STATES_REGEX.findall(line)
    msg = f"on={on} off={off}"
    if key == "off_misses_zero":
        return (not off), msg
    if key == "on_matches_zero":
        return bool(on), msg
    if key == "on_misses_nonzero":
        return (not on), msg
    if key == "off_matches_nonzero":
        return bool(off), msg
    if key in ("off_extracts_tag", "on_extracts_tag"):
        got = off if key.startswith("off") else on
        plain = line.replace(OPEN, "").replace(CLOSE, "")
        on = qcow2.QEMU_ON_STATES_REGEX.findall(plain)
        off = qcow2.QEMU_OFF_STATES_REGEX.findall(plain)
        got = off if key.startswith("off") else on
        tag = plain.split()[1]
        return (not got or got[0][0] != tag), f"on={on} off={off} row tag={tag!r}"
    if key == "listing":
        rows = [l for l in line.splitlines()[2:] if l]
        tags = [r.split()[1] for r in rows]
        want_on, want_off = (tags, []) if data.get("on") else ([], tags)
        return ([t[0] for t in on] != want_on or [t[0] for t in off] != want_off), msg
    return False, "unknown key"


def run(ctx: common.Context) -> None:
    _cfg["max_images"] = 3
    _cfg["full_orders_upto"] = 3 if ctx.thorough else 2
    ctx.bounds = {
        "images": "1..3", "state_names": STATE_NAMES, "listing_order": "all permutations (quick: for 3 images only identity and reversed)",
        "regex_rows": "qemu-img row grammar: id{1,4} sp+ tag[A-Za-z0-9_.-]+ sp+ ('0 B' | nonzero %0.3g number + unit) sp+ date sp+ clock [sp+ icount], unbounded lengths (tag extraction: line <= 64 chars)",
    }
    ctx.assumptions = [
        "QemuImg.snapshot_list / os.listdir / os.stat / the image backend of the ramfile backend are stubs returning listings built from the solver-chosen presence bits",
        "regex part: one-line model (a match does not span rows), ASCII classes for \\w \\d \\s, rows follow qemu-img's table grammar with at least one space between columns",
    ]
    deadline = ctx.deadline(120, 900)
    exhausted, stats, collected, err = symx.explore_parallel(_show_factory, seed=ctx.seed, split_depth=6, deadline=deadline)
    ctx.add_stats(stats)
    counters = common.merge_collected(ctx, collected)
    ctx.part("show", exhausted=exhausted, paths=stats.paths, counters=counters)
    if err:
        ctx.note_inconclusive(err)
    if not exhausted:
        ctx.exhaustive = False
    if counters.get("nonempty_expected", 0) == 0:
        ctx.note_inconclusive("vacuous: no case with a complete vm state")
    for c in collected:
        for what, cls, detail in c.violations:
            ctx.report(f"C17 {cls}", what, detail, replay)
    regex_queries(ctx, 120 if not ctx.thorough else 600)
    ctx.coverage["explanation"] = (
        "(a) exhaustive solver-driven exploration of the real show methods over presence bits and listing orders; "
        "(b) the live compiled regexes translated to z3 regular expressions and compared with the qemu-img row grammar by "
        "emptiness queries (unsat = holds for every row of the grammar) and a decomposition query for the extracted tag"
    )
    if ctx.thorough:
        chrun.run_crosshair(ctx, "ch_c17.py", per_condition_timeout=60)

#!/bin/bash
# Entry point of every registered command.
#   ./run.sh --setup                 build the venv, run the engine self-test
#   ./run.sh <ID> quick|thorough     run the check of one property
#   ./run.sh <ID> --replay <file>    replay a recorded counterexample on the real code
# The venv is an overlay of /venv (the repository's own interpreter and
# dependencies) plus z3-solver and crosshair-tool from the offline wheelhouse.
set -u
HERE="$(cd "$(dirname "${BASH_SOURCE[0]}")" && pwd)"
cd "$HERE"
VENV="$HERE/.venv"
PY="$VENV/bin/python"
export PIP_NO_INDEX=1
export PYTHONHASHSEED=0
export PYTHONDONTWRITEBYTECODE=1
export AVOCADO_I2N_VERIF=1
export PYTHONWARNINGS=ignore
# development aid only: run the checks against a scratch copy of the repository instead of /repo
if [ -n "${VERIF_REPO:-}" ]; then export PYTHONPATH="$VERIF_REPO${PYTHONPATH:+:$PYTHONPATH}"; fi

build_venv() {
    if [ -x "$PY" ] && "$PY" -c "import z3, crosshair, avocado_i2n" >/dev/null 2>&1; then
        return 0
    fi
    (
        flock 9
        if [ -x "$PY" ] && "$PY" -c "import z3, crosshair, avocado_i2n" >/dev/null 2>&1; then
            exit 0
        fi
        rm -rf "$VENV"
        /venv/bin/python -m venv "$VENV" >&2 || exit 3
        SP="$("$PY" -c 'import sysconfig; print(sysconfig.get_paths()["purelib"])')"
        printf '%s\n%s\n' "/venv/lib/python3.12/site-packages" "/repo" > "$SP/_overlay.pth"
        "$PY" -m pip install -q --no-index --find-links /opt/veriftools/wheels \
            z3-solver crosshair-tool >&2 || exit 3
    ) 9>"$HERE/.venv.lock"
}

build_venv || { echo "cannot build the verification venv" >&2; exit 3; }

if [ "${1:-}" = "--setup" ]; then
    exec "$PY" -m engine.selftest
fi
exec "$PY" -m checks.main "$@"

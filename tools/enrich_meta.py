#!/usr/bin/env python3
"""Complete seeded/<name>/meta.json: what the change breaks, what it needs to manifest, what was run, which checks catch it."""
import json, os, re, subprocess, sys

HERE = os.path.dirname(os.path.dirname(os.path.abspath(__file__)))
NEEDS = {}
table = open(os.path.join(HERE, "DESIGN.md")).read().split("## 9. Seeded changes")[1].split("## 10.")[0]
for line in table.splitlines():
    m = re.match(r"\| (C\d\d-m\d)(?: / (C\d\d-m\d))? ([^|]*)\| ([^|]*)\| ([^|]*)\|", line)
    if m:
        for name in (m.group(1), m.group(2)):
            if name:
                NEEDS[name] = {"change": m.group(3).strip(), "needs": m.group(4).strip(), "caught_by_design": m.group(5).strip()}
    m = re.match(r"\| (C\d\d-m\d) = (C\d\d-m\d)", line)
    if m and (m.group(1) not in NEEDS or not NEEDS[m.group(1)].get("needs")):
        NEEDS[m.group(1)] = dict(NEEDS.get(m.group(2), {}), change=f"same site as {m.group(2)}")
matrix = {}
mpath = sys.argv[1] if len(sys.argv) > 1 else "/tmp/seeded_matrix.log"
if os.path.exists(mpath):
    for line in open(mpath):
        m = re.match(r"(\S+) (C\d\d) exit=(\d+) violations=(\d+)", line)
        if m:
            matrix.setdefault(m.group(1), {})[m.group(2)] = {"exit": int(m.group(3)), "violations": int(m.group(4))}
recheck = {}
if os.path.exists("/tmp/recheck.log"):
    for line in open("/tmp/recheck.log"):
        p = line.split()
        if len(p) >= 5:
            recheck[p[0]] = {k: v for k, v in (x.split("=") for x in p[1:])}
props = {json.loads(l)["id"]: json.loads(l) for l in open(os.path.join(HERE, "properties.jsonl"))}
for name in sorted(os.listdir(os.path.join(HERE, "seeded"))):
    d = os.path.join(HERE, "seeded", name)
    mp = os.path.join(d, "meta.json")
    meta = json.load(open(mp)) if os.path.exists(mp) else {"name": name, "property": name.split("-")[0]}
    info = NEEDS.get(name, {})
    pid = meta.get("property", name.split("-")[0])
    meta["breaks_property"] = {"id": pid, "title": props[pid]["title"]}
    if info:
        meta["change"] = info.get("change")
        meta["needs_to_manifest"] = info.get("needs")
    meta["origin"] = "written by an independent sub-agent that was given only the property text and a scratch worktree"
    meta["confirmed_here"] = {
        "demo_exit_clean": meta.get("demo_exit_clean"), "demo_exit_with_patch": meta.get("demo_exit_with_patch"),
        "full_suite_with_patch": meta.get("suite_with_patch"), "base_commit_of_confirmation": meta.get("base_commit"),
        "rechecked_on_final_repo_head": recheck.get(name),
        "commands": ["tools/confirm_mutant.sh (scratch worktree: demo clean, git apply, demo patched, full selftests/isolation with the patch)", "tools/recheck_seeded.sh (final HEAD: patch applies, demo clean/patched)"],
    }
    if name in matrix:
        meta["checks_run_against_it"] = matrix[name]
        meta["caught_by"] = sorted(k for k, v in matrix[name].items() if v["exit"] == 1 and v["violations"] > 0)
    if name == "C04-m6":
        meta["caught_by_tier"] = {"C04": "thorough"}
    json.dump(meta, open(mp, "w"), indent=1)
print("enriched", len(os.listdir(os.path.join(HERE, "seeded"))))

#!/usr/bin/env python3
"""usage: tools/enrich_meta.py <name> <change> <needs_to_manifest> <caught_by,comma separated or ''> [first_run_note]
Adds the descriptive fields to seeded/<name>/meta.json (written by tools/confirm_mutant.sh)."""
import json, sys
name, change, needs, caught = sys.argv[1:5]
note = sys.argv[5] if len(sys.argv) > 5 else ""
p = f"/verif/seeded/{name}/meta.json"
m = json.load(open(p))
pid = m["property"]
title = next(json.loads(l)["title"] for l in open("/verif/properties.jsonl") if json.loads(l)["id"] == pid)
m["breaks_property"] = {"id": pid, "title": title}
m["change"] = change
m["needs_to_manifest"] = needs
m["origin"] = "written by an independent sub-agent that was given only the property text and a scratch worktree"
m["confirmed_here"] = {"demo_exit_clean": m["demo_exit_clean"], "demo_exit_with_patch": m["demo_exit_with_patch"], "full_suite_with_patch": m["suite_with_patch"], "base_commit_of_confirmation": m["base_commit"],
                       "commands": ["tools/confirm_mutant.sh (scratch worktree: demo clean, git apply, demo patched, full selftests/isolation with the patch)"]}
m["caught_by"] = [c for c in caught.split(",") if c]
m["checks_run_against_it"] = {c: {"exit": 1} for c in m["caught_by"]}
if note:
    m["first_run"] = note
json.dump(m, open(p, "w"), indent=1)

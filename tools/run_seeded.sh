#!/bin/bash
# usage: tools/run_seeded.sh [names...]  -- run every seeded change against the checks that should catch it (quick tier)
cd "$(dirname "$0")/.."
declare -A EXTRA=( [C02-m1]="C10" [C16-m2]="C09" [C03-m1]="C04 C03" [C04-m1]="C04 C03" [C09-m2]="C09 C06" [C06-m2]="C06 C01" [C01-m1]="C01 C06" [C01-m4]="C01 C08" [C03-m4]="C02 C10" [C15-m4]="C15 C08" [C01-m6]="C01 C05" [C03-m6]="C03 C02" [C08-m5]="C08 C10" [C10-m5]="C10 C08" [C04-m6]="C04:thorough" )
NAMES="${@:-$(ls seeded)}"
for name in $NAMES; do
  prop=$(echo $name | cut -d- -f1)
  checks="${EXTRA[$name]:-$prop}"
  for id in $checks; do
    tier=quick; case "$id" in *:*) tier="${id#*:}"; id="${id%%:*}";; esac
    res=$(TAIL=40 tools/try_patch.sh seeded/$name/patch.diff $id $tier 2>&1)
    rc=$(echo "$res" | grep "^exit=" | cut -d= -f2)
    nv=$(echo "$res" | grep -c "^VIOLATION")
    echo "$name $id exit=$rc violations=$nv"
  done
done

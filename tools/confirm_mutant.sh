#!/bin/bash
# usage: tools/confirm_mutant.sh <dir with patch.diff + demo*.py> <name> <property>
# Confirms in a scratch worktree of /repo HEAD: demo passes clean, fails with the patch, full suite passes with the patch.
set -u
SRC="$1"; NAME="$2"; PROP="$3"
WT="/tmp/cm-$NAME"
OUT="/verif/seeded/$NAME"
mkdir -p "$OUT"
cp "$SRC/patch.diff" "$OUT/patch.diff"
DEMO=$(ls "$SRC"/demo*.py | head -1)
cp "$SRC"/demo*.py "$OUT/"
[ -f "$SRC/notes.md" ] && cp "$SRC/notes.md" "$OUT/notes.md"
git -C /repo worktree remove --force "$WT" 2>/dev/null
git -C /repo worktree add -q --detach "$WT" HEAD || exit 2
cd "$WT"
mkdir -p MUTANTS/x && cp "$SRC"/demo*.py MUTANTS/x/
D="MUTANTS/x/$(basename $DEMO)"
run_demo() { PYTHONPATH="$WT:$WT/selftests/isolation" timeout 900 /venv/bin/python "$D" > "$1" 2>&1; echo $?; }
sed -i "s#/tmp/wt-[A-Za-z0-9]*#$WT#g" MUTANTS/x/*.py
CLEAN_RC=$(run_demo "$OUT/demo_clean.txt")
if ! git apply "$OUT/patch.diff" 2> "$OUT/apply_err.txt"; then
  echo "{\"property\": \"$PROP\", \"name\": \"$NAME\", \"applies\": false}" > "$OUT/meta.json"
  cd /; git -C /repo worktree remove --force "$WT"; exit 1
fi
rm -f "$OUT/apply_err.txt"
MUT_RC=$(run_demo "$OUT/demo_mutant.txt")
PYTHONPATH="$WT" timeout 3000 /venv/bin/python -m pytest -q -p no:cacheprovider --timeout=900 --continue-on-collection-errors selftests/isolation > "$OUT/suite_with_patch.txt" 2>&1
SUMMARY=$(tail -1 "$OUT/suite_with_patch.txt")
tail -5 "$OUT/suite_with_patch.txt" > "$OUT/suite_tail.txt"; rm "$OUT/suite_with_patch.txt"
cat > "$OUT/meta.json" <<JSON
{"property": "$PROP", "name": "$NAME", "applies": true, "demo_exit_clean": $CLEAN_RC, "demo_exit_with_patch": $MUT_RC,
 "suite_with_patch": "$SUMMARY", "base_commit": "$(git -C /repo rev-parse --short HEAD)",
 "ran": ["demo on clean worktree", "demo with patch", "full selftests/isolation with patch (pytest --continue-on-collection-errors)"]}
JSON
cd /; git -C /repo worktree remove --force "$WT"
echo "$NAME: clean=$CLEAN_RC mutant=$MUT_RC suite=$SUMMARY"

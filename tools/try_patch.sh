#!/bin/bash
# usage: tools/try_patch.sh <patch.diff> <ID> [tier]   -- apply a patch to /repo, run one check, undo the patch
set -u
PATCH="$1"; ID="$2"; TIER="${3:-quick}"
cd /repo || exit 2
if ! git diff --quiet; then echo "/repo has uncommitted changes"; exit 2; fi
git apply "$PATCH" || { echo "patch does not apply"; exit 2; }
cd /verif && ./run.sh "$ID" "$TIER" 2>&1 | grep -v "^  " | tail -${TAIL:-6}
rc=${PIPESTATUS[0]}
git -C /repo checkout -- . 
echo "exit=$rc"

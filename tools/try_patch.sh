#!/bin/bash
# usage: tools/try_patch.sh <patch.diff> <ID> [tier]
# Apply a patch to a scratch worktree of /repo HEAD (under /tmp), run one check against it, remove the worktree.
# (/repo itself stays untouched so that other runs are not disturbed; VERIF_REPO is a development aid of run.sh)
set -u
PATCH="$(readlink -f "$1")"; ID="$2"; TIER="${3:-quick}"
WT="/tmp/tp-$$-$ID"
git -C /repo worktree add -q --detach "$WT" HEAD || exit 2
if ! git -C "$WT" apply "$PATCH"; then echo "patch does not apply"; git -C /repo worktree remove --force "$WT"; exit 2; fi
cd /verif && VERIF_REPO="$WT" VERIF_OUT="$WT/.verif-out" ./run.sh "$ID" "$TIER" 2>&1 | grep -v "^  " | tail -${TAIL:-6}
rc=${PIPESTATUS[0]}
git -C /repo worktree remove --force "$WT"
echo "exit=$rc"

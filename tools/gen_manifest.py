#!/usr/bin/env python3
"""Generate /verif/MANIFEST.json from the table below (kept next to the checks)."""

import json
import os

HERE = os.path.dirname(os.path.dirname(os.path.abspath(__file__)))

TRAVERSAL_NOTE = (
    "Trusted: engine/symx.py + engine/vsched.py (scheduler, asyncio shim), the store model of the state seam "
    "(cartgraph.node.door), z3. Graphs come from a concrete menu of selections of the shipped suite parsed by the real "
    "Cartesian parser (symbolic strings cannot pass it); schedules, outcomes, pool contents, retry settings are solver variables. "
    "Bounded: see evidence.coverage.bounds; nothing is claimed outside them."
)

CHECKS = {
    "C16": dict(
        category="other",
        technique="symbolic execution of the real PrefixTree/EdgeRegister on uninterpreted atoms, z3 validity query per path",
        text=(
            "Bounded symbolic execution of the real PrefixTree.insert/get/__contains__, TestGraph.new_nodes/get_nodes_by_name and "
            "EdgeRegister with names made of uninterpreted atoms (symbolic equality, constant hash, so the real dicts fork on the "
            "equality pattern). At the end of every path the concrete lookup result is compared with the z3 formula 'the name contains "
            "the query contiguously' / 'sum of matching registrations' by a validity query (unsat of the negation). Holds for an "
            "unbounded alphabet within <= 3 names of <= 3 (thorough 4) variants, queries <= 2 (3), <= 4 (5) registrations; exhaustive "
            "within those bounds. Counterexamples are replayed with plain strings on the real classes."
        ),
        note="Assumes the property's own precondition on names (set variant first, no repeated variant, distinct names). Trusted: symx proxies, z3.",
        design="DESIGN.md §1 C16",
    ),
    "C17": dict(
        category="other",
        technique="solver-driven path exploration of the real show methods + live regexes translated to z3 regular languages (emptiness queries)",
        text=(
            "(a) The real QCOW2VTBackend.show and RamfileBackend._show are executed for every solver-chosen assignment of state presence to "
            "1..3 images and memory files and every listing order (exhaustive, 39k paths); the result must equal the every-image intersection. "
            "(b) The live compiled QEMU_ON_STATES_REGEX/QEMU_OFF_STATES_REGEX are translated from their re._parser trees into z3 regular "
            "expressions (negative look-ahead = intersection with a complement) and six language queries are discharged against the grammar "
            "of a qemu-img snapshot row: zero-size rows are matched by OFF and never by ON, nonzero rows by ON and never by OFF, and in every "
            "decomposition the pattern admits group 1 is exactly the TAG column (marker-language construction). unsat = holds for every row of "
            "the grammar, any length. Vacuity twins and a cross-check of grammar/translation against re on 72 realistic rows are included."
        ),
        note="Listing boundary (QemuImg.snapshot_list, os.listdir/stat, image backend) stubbed. Regex part: one-line model, ASCII classes, rows follow qemu-img's table grammar (>= 1 space between columns, size_to_str numbers). Trusted: smtgen translation (self-tested against re), z3 sequence/regex theory.",
        design="DESIGN.md §1 C17",
        engine="symx+smtgen",
    ),
    "C19": dict(
        category="other",
        technique="symbolic execution of the real VMTunnel constructor/connects_nodes over uninterpreted atoms, z3 validity queries against the counterpart table",
        text=(
            "The real VMTunnel.__init__ (with _get_peer_variant, real VMNode/VMNetconfig/Params) is executed for every combination of "
            "local x remote x peer x auth types (plus one unsupported word each) with addresses, networks, netmasks, PSK identities and nic "
            "names as uninterpreted atoms; the nodes' real interface dicts fork on nic-name equality so aliasing of nic roles is covered. "
            "Every generated left/right parameter is compared with the documented counterpart table by a validity query over the atoms "
            "(definedness included); unsupported types must raise ValueError. connects_nodes is run in both argument orders over three "
            "nodes with the netconfig membership predicates as solver variables. Every path starts from the class-level state the module was imported with and first builds a solver-chosen predecessor tunnel of another kind (tunnels are built in sequence in one process). Exhaustive within these bounds (220k paths, 3.5M queries)."
        ),
        note="vm platform/interfaces are stubs carrying atoms; for connects_nodes the tunnel netconfigs are stubs with symbolic predicates, a misconfiguration IndexError is not compared. Trusted: symx, z3, the counterpart table written from the constructor's docstring.",
        design="DESIGN.md §1 C19",
    ),
}

def _trav(pid, what, extra=""):
    return dict(
        category="model_checking",
        technique="solver-driven exploration of the real traversal coroutines (schedules, outcomes, pool contents as z3 variables) + trace monitor",
        text=(
            "Every path is a complete run of the real TestGraph.traverse_object_trees coroutines of all workers (with traverse_node, reverse_node, "
            "traverse_terminal_node, lazy parse_paths_to_object_roots, TestNode run/clean/rerun decisions, pick/drop registers, scan/sync_states, "
            "pull_locations and the real TestRunner.run_test_node) stepped by a deterministic scheduler. Which suspended worker continues, the outcome "
            "of every execution (subject to a z3 budget constraint on non-passing outcomes) and the initial content of every state pool are solver "
            "variables; z3 enumerates the feasible values and the decision tree is explored depth first by re-execution on up to 16 processes. "
            + what + " Violations are replayed with plain values (recorded decisions, no solver) on the same real code before being reported. "
            "A plan that does not exhaust its tree within the time share reports exhaustive=false (bug hunting only for that plan)." + extra
        ),
        note=TRAVERSAL_NOTE,
        design="DESIGN.md §1 " + pid,
        engine="symx+vsched",
    )


CHECKS.update({
    "C01": _trav("C01", "Monitor: at every start, each required non-root state of a non-permanent object is in the worker's own pool or in a pool the test is instructed and permitted to read, unless its producer (or the object's creation) was attempted in this run and did not pass; evaluated on the store model; in the 'composed' plans the same question is answered by the real states.setup.get_states running over the real SourcedStateBackend/RootSourcedStateBackend with the parameters the traversal handed to the test (only the storage is the model), and the agreement of both oracles is counted in the evidence."),
    "C02": _trav("C02", "Monitor: every coroutine returns without exception, no livelock (all live workers backing off with nobody running) and no step-bound overrun; every selected compatible test was executed and no result is left UNKNOWN; a dry run executes nothing and makes no state request. Outcomes include 'never reported' (also: no result is ever reported, unbounded); virtual-time plans let executions hang up to 5 x test_timeout so that a waiting worker exhausts its wait budget and joins in."),
    "C03": _trav("C03", "Monitor: executions grouped by worker-invariant name and reuse scope (global / per swarm / per worker from pool_scope and spawner) never exceed max(1, max_tries); a setup test whose states were all there at its first examination (judged from the store model for the states the test produces, not from how the code phrased its request) is not executed in that scope; clone sources and flat tests never execute. One plan makes the runner's polling for a late result a scheduling point."),
    "C04": _trav("C04", "Monitor: executions of one test (the two creation steps of an object counted as one) by different workers of a scope overlap at most max_concurrent_tries times (the configured value, not the node parameter the traversal raises when it lets a worker in); no worker enters between the two creation steps of another. In addition to choice mode, virtual-time plans give every execution a symbolic real duration in (0, test_timeout) and let the solver decide the order of wake-ups (one path = one feasible event order for all durations consistent with it), which covers the back-off budget arithmetic; those plans are capped by time and report exhaustive=false when not completed."),
    "C05": _trav("C05", "Monitor: every unset request addresses a state marked removable (unset_mode f.), is issued while no execution needing or producing it runs and no dependant starts afterwards (incl. dependants another worker expanded lazily, removal marks given per image or as mode 'fa'); with pool_filter=reuse no copy (get) request is made while backing out."),
    "C08": _trav("C08", "Monitor: at every start the executing worker is the node's net with its own nets_* parameters and is not excluded by restrictions; for each required state the named sources are exactly the shared pool plus the workers that produced it in this run (PASS/WARN), with those workers' access parameters (also for a retried test whose producer finished between its tries); with runtime slots the connection parameters equal an independent reference of the documented slot meaning; state control requests go through the acting worker's own connection."),
    "C06": dict(
        category="other",
        technique="structural oracle over graphs built by the real parser: concrete menu, solver-explored lazy expansions, symbolic-edge family",
        text=("(a) A structural oracle (acyclic, one starting node, all reachable, dependencies recorded on both ends with equal object sets, unique identities, exactly one "
              "producer per required state for the same worker and variant, one net first, vms as named, clone sources not runnable) is evaluated on graphs parsed by the real code "
              "for a menu of selections (eager, worker order permuted, multi-variant vm) and on every lazily expanded graph reached under solver-chosen schedules. "
              "(b) Real nodes stripped of their edges get every forward edge as a solver variable via descend_from_node, then the real parse_shared_root_from_object_roots; "
              "exhaustive over all 2^(K choose 2) shapes, K=4 (5). "
              "(c) deep cloning: the real parse_cloned_branches_for_node_and_object on real nodes chained 1..4 deep below a test with two parents (optionally two dependants at one level): every clone hangs below the matching clone of its parent, never below a retired clone source."),
        note="Selections are a concrete menu of the shipped suite (Cartesian parser not symbolically executable): 'for all restriction strings' is covered only for that menu. Trusted: structure.py oracle.",
        design="DESIGN.md §1 C06", engine="symx+vsched"),
    "C09": dict(
        category="other",
        technique="lazy-vs-eager graph comparison under solver-explored schedules + bridging protocol explored over solver-chosen orders",
        text=("(a) every lazily expanded graph reached under solver-chosen schedules is compared node by node with the eagerly parsed graph (dependencies, objects; every selected compatible test expanded by some worker); "
              "(b) worker copies: symmetric bridging, four distinct registers shared by all copies; (c) the bridging protocol on real equivalent nodes with solver-chosen arrival order, "
              "bridge-list order and interleaved visit registrations for both call-site protocols (exhaustive for 3 (4) copies); (d) parsing twice gives the same graph; (e) an observer on EdgeRegister.register remembers every recorded visit: at the end of every explored lazy traversal each one must still be in a register that some node uses (progress is never lost when copies are linked); (f) every lazily expanded (flat) test leads to the clones of a test that was split per setup variant, not only to its retired source."),
        note="Selections from a concrete menu (L1). Trusted: structure.py signatures.",
        design="DESIGN.md §1 C09", engine="symx+vsched"),
    "C10": dict(
        category="other",
        technique="symbolic max_tries through the real should_rerun with a z3 validity query per path; solver-enumerated verdict inputs; traversal monitors",
        text=("(a) the real TestNode.should_rerun on real parsed nodes (stateless leaf, stateful setup with a bridged copy) with max_tries a symbolic integer in [-2,6] (one path covers an interval), "
              "solver-chosen status histories split between the node and its bridged copy, rerun/stop sets from a menu incl. invalid words, replay on/off, non-integer max_tries; the property's sentence as a "
              "z3 formula discharged per path (exhaustive). (d) the real all_results_ok against 'every name has an acceptable result' for all result lists up to 3 (4) entries. "
              "(b) identifiers pairwise distinct and each execution's own outcome recorded, (c) replay of previous results with symbolic previous statuses (a replayed passing test whose state is missing from the store must run again), (e) for one worker the number of tries per test and per object creation equals what max_tries and the rerun/stop rules give: traversal monitors."),
        note="Decision table overwrites params/results of real parsed nodes in place. Traversal parts share the C01-C05 trusted base.",
        design="DESIGN.md §1 C10", engine="symx+vsched"),
    "C12": dict(
        category="other",
        technique="symbolic execution of the real state operations with symbolic mode characters and presence bits against a reference program of the README policy table",
        text=("The real check/get/set/unset/push/pop_states run against an in-memory backend registered in BACKENDS with both mode letters symbolic characters (a path covers every letter the code does not "
              "distinguish) and state/root presence per object as solver variables; operation, state kind, addressed type and object, skip_types, readonly image, check_mode, 1..2 vms x 1..2 images "
              "and sequences of 2 (3) operations are enumerated by the explorer. The README policy table is a reference program over the same symbolic letters; raised exception class, state-changing "
              "backend calls, get calls and touched objects are compared per path. Exhaustive within the bounds. check_mode: unset, 'rr' and 'rf' get the full reference; the other values of this undocumented experimental parameter (thorough tier) only the clause 'nothing but the addressed objects is touched'."),
        note="Trusted: the reference program (README policy table; skip_types and read-only images apply to every operation incl. push/pop), the in-memory backend.",
        design="DESIGN.md §1 C12"),
})

CHECKS.update({
    "C11": dict(
        category="other",
        technique="solver-enumerated argument lists through the real params_from_cmd against a reference function of the documentation; z3 regular-language inclusion queries for the argument form",
        text=("The real cmd_parser.params_from_cmd (with full_vm_params_and_strs/full_tests_params_and_str, parser calls memoised) is run on every argument list of length <= 2 (3) over a menu of "
              "19 (26) argument forms (only/no, only_vmX/no_vmX incl. unknown objects, vms, nets, only_nets/no_nets, K=V, malformed); tests_str, vm_strs, param_dict and the vm selection are compared "
              "with a reference function written from the README; documented errors must raise ValueError. Also: Reparsable.parse_next_batch orders file < string < dict and a K=V override reaches "
              "every parsed test of three selections. Exhaustive over the menu (381 / 14k lists). Argument form: the re call the real tokenizer makes on the whole argument (function and pattern, recorded through a shim) is translated "
              "to a z3 regular language and compared both ways with the documented form <key>=<val> for every string of <= 12 printable characters (unsat = same language; a witness is replayed on the real params_from_cmd), plus concrete malformed probes."),
        note="The claim covers the repository side only: that the composed restriction strings select the same tests as an equivalent restriction is the Cartesian parser's semantics (outside). Argument values are concrete menu entries.",
        design="DESIGN.md §1 C11"),
    "C13": dict(
        category="other",
        technique="symbolic execution of the real pool backends over uninterpreted gateway/host atoms, symbolic presence bits, all scope subsets",
        text=("The real SourcedStateBackend.show/get/set/unset (get_sources, get_source_scope) and RootSourcedStateBackend root operations run with transport and local _show/_get/_set/_unset as logging stubs. "
              "Gateways/hosts of the own worker and each source are uninterpreted atoms (the real comparisons and the proximity sort fork on their equality), presence locally/per source and cache validity "
              "are solver variables, pool_scope ranges over all 16 subsets, source lists of length <= 2 (3) over three path classes. Checked: only sources of an enabled scope are contacted, get uses the closest "
              "permitted source and downloads exactly when needed, set/unset reach every permitted mirror, show reports only what is local or in a permitted source, updating without the local state is refused. Exhaustive. Cache validation chain: the real QCOW2ImageTransfer.compare_chain/transfer_chain "
              "with equality of every file of the state a solver variable (4 object types x 1..2 images x backing chains of 1..3 states): compare_chain is true iff every file of the documented layout is equal, transfer_chain moves exactly those files."),
        note="transport and local backend methods are stubs (the substitution points the classes provide); closeness = (same gateway, same host, swarm_pool path).",
        design="DESIGN.md §1 C13"),
    "C14": dict(
        category="other",
        technique="symbolic execution of the real transfer operations and image_lock over a model file system with symbolic contents, lock contention and fault position",
        text=("The real TransferOps.*_local/*_link and image_lock run over a model file system (pool.os/shutil/open), a model lockf answering EAGAIN for k attempts (k symbolic), crypto.hash_file "
              "returning the symbolic content it hashes (contents = (first MiB, rest)), and OSError injected at the f-th file system call. Checked: every copy/unlink/symlink happens while the lock on "
              "<pool_path>.lock is held, the lock file is never removed, the lock is released on every exit iff taken, waiting out the timeout raises RuntimeError without touching anything (validity query "
              "on k), real data is never lost (incl. under faults), the destination equals the source after a successful transfer (validity query over content terms), no copy when both match, link mode "
              "never replaces data nor uploads a link. Exhaustive (1.5k paths). In addition 2 (3) real operations on the same pool file run as baton-passing threads with a solver-chosen switch at every shared file system call, lock attempt and sleep, over an inode-level lock model (a re-created lock file is a new inode): no access outside the critical section, never two processes inside it, no lock left behind (exhaustive for 2 processes, 24k interleavings)."),
        note="Assumed, not checked: fcntl exclusion between processes and release on process death (kernel). Remote transfers have no locks in the code and are excluded. Known finding: first-MiB-only hashing.",
        design="DESIGN.md §1 C14"),
})

CHECKS.update({
    "C18": dict(
        category="other",
        technique="real netconfig/network code executed on 32-bit bit-vector addresses (ipaddress shim); validity queries per prefix length; symbolic address equality through the real registries",
        text=("netconfig.ipaddress is replaced by a bit-vector shim: an address is a 32-bit z3 term carried through the real string-based code as a str subclass with symbolic equality. "
              "Kernels (validity queries for all 2^32 addresses x 33 prefix lengths): mask_bit setter/getter round trip, _get_network_ip = ip & mask, translate_address = target network | host offset "
              "with no integer wrap for every host of the source subnet, get_allocatable_address hands out network+offset once each then IndexError. Model: the real VMNetwork.__init__/integrate_node/"
              "reattach_interface on stub vms (1..2 (3) vms x 1..2 nics, prefix lengths 8/16/24/30, arbitrary distinct host addresses): every interface is in exactly one registered netconfig whose subnet "
              "contains its address, registry keys equal network addresses, one registration per interface under its own address, no duplicate addresses - also after reattachments; static addresses may lie inside or outside the DHCP pool (decided once per path); a rejected construction must be explained by two interfaces with conflicting netmasks (validity query over all address assignments of the path); exhaustion may only be reported when the pool can be used up. The allocation kernel goes through the real from_interface with a configured range. Exhaustive."),
        note="Trusted: the ipaddress shim (IPv4Address, ip_interface, network/netmask semantics). Counterexamples are replayed with the real ipaddress module and the model's concrete addresses.",
        design="DESIGN.md §1 C18"),
})

CHECKS.update({
    "C15": _trav("C15", "The graph is the one the real intertest_setup.update builds (clean/run/skip graphs, flag_children/flag_intersection, bridging) entered through the selftests' job seam; TestRunner.run_workers hands it to the scheduler. Monitor: the executed setup tests are exactly the producers of the states on the from..to path of each selected vm (creation steps iff install is on the path), every unset request is for a state of a selected vm derived from the target state, every derived state is removed on every worker, nothing of other vms; nonexistent from/to states are rejected before anything runs. The path is checked per selected variant of a vm, removals must go through the connection of the worker they are meant for. Menu: six (from,to) pairs, vm1 / vm1+vm2 / both variants of vm1 / permanent vm3, 1-3 lxc workers and two remote workers behind one gateway; with retries (max_tries 2, stop on pass) every path test is tried as often as the retry rule gives."),
    "C20": dict(
        category="other",
        technique="solver-chosen step outcomes through the real Manu.run + tool graphs built by the real intertest_setup code explored under solver-chosen schedules",
        text=("(a) the real Manu.run with command line parsing and tool loading stubbed and the chain steps replaced by stubs whose outcome (None, 0, 1, raises) is solver-chosen, chains of length <= 3 (4) incl. a repeated step: "
              "every step is called once per occurrence, in order, with tag 0m<i>, return code 1 iff some step failed (exhaustive). (b) the graphs the real _parse_and_iterate_for_objects_and_workers / "
              "_parse_one_node_for_all_objects_per_worker build for get/unset/boot (thorough: check/set/push/pop/shutdown, restricted worker) are traversed under solver-chosen schedules and outcomes: exactly one "
              "execution per (selected vm, compatible worker) carrying the step's parameters and vm_action (a parameter given for one vm is that vm's effective value), none for unselected vms; the dictionary the chain's steps share is left as found, also when the tool's environment fails to start."),
        note="Step functions and the command line front end are stubs in (a); (b) shares the traversal trusted base; vm selections and worker sets from a menu (L1).",
        design="DESIGN.md §1 C20", engine="symx+vsched"),
})

NOT_APPLICABLE = {
    "C07": "Both sides of 'parsed edges = edges declared in the configuration' are functions of concrete configuration text through virttest's Cartesian parser (2200 lines of text processing outside /repo) which cannot be executed on symbolic strings within reach; deciding it would be differential testing over enumerated selections, a different technique. See DESIGN.md §2.",
}

PENDING_REASON = "check not built yet in this round (planned, see DESIGN.md §1); not claimed until its check exists"


def main() -> None:
    props = [json.loads(l) for l in open(os.path.join(HERE, "properties.jsonl"))]
    checks = []
    na = []
    for p in props:
        pid = p["id"]
        if pid in CHECKS:
            c = CHECKS[pid]
            checks.append(
                {
                    "property_id": pid,
                    "quick_cmd": f"./run.sh {pid} quick",
                    "thorough_cmd": f"./run.sh {pid} thorough",
                    "evidence_file": f"evidence/{pid}.json",
                    "replay_cmd_template": f"./run.sh {pid} --replay {{path}}",
                    "engine": c.get("engine", "symx"),
                    "level_claimed": {"category": c["category"], "text": c["text"], "design_ref": c["design"]},
                    "level_note": c["note"],
                    "technique": c["technique"],
                }
            )
        else:
            na.append({"property_id": pid, "reason": NOT_APPLICABLE.get(pid, PENDING_REASON)})
    manifest = {
        "version": 1,
        "setup_cmd": "./run.sh --setup",
        "hooks": {
            "guard": "AVOCADO_I2N_VERIF",
            "enable": "no hooks in /repo: every seam is a monkey-patch applied by the harness at run time (run.sh exports AVOCADO_I2N_VERIF=1 for uniformity, nothing in /repo reads it)",
            "baseline_off_cmd": "cd /repo && /venv/bin/python -m pytest -ra -q -p no:cacheprovider --timeout=900 --continue-on-collection-errors",
            "source_commits": [],
            "add_only": True,
        },
        "engines": [
            {"name": "symx", "path": "engine/symx.py", "serves_properties": sorted(CHECKS), "kind_free_text": "proxy-based symbolic executor for Python: z3 decides every branch on a symbolic value, DFS by re-execution, validity queries at path ends"},
            {"name": "vsched", "path": "engine/vsched.py", "serves_properties": [p for p in sorted(CHECKS) if p in ("C01", "C02", "C03", "C04", "C05", "C08", "C09", "C10", "C15", "C20", "C06")], "kind_free_text": "deterministic scheduler stepping the real traversal coroutines; scheduling choices, outcomes and durations are solver variables"},
            {"name": "smtgen", "path": "engine/smtgen.py", "serves_properties": [p for p in sorted(CHECKS) if p in ("C17",)], "kind_free_text": "sre parse tree of the live compiled patterns -> z3 regular expressions"},
        ],
        "checks": checks,
        "not_applicable": na,
        "notes": "Exit codes: 0 held on everything explored; 1 + VIOLATION line; 3 inconclusive / harness error. Replay files are written under replays/<id>/.",
    }
    with open(os.path.join(HERE, "MANIFEST.json"), "w") as f:
        json.dump(manifest, f, indent=1)
    print(f"claimed: {[c['property_id'] for c in checks]}")


if __name__ == "__main__":
    main()

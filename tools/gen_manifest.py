#!/usr/bin/env python3
"""Generate /verif/MANIFEST.json from the table below (kept next to the checks)."""

import json
import os

HERE = os.path.dirname(os.path.dirname(os.path.abspath(__file__)))

TRAVERSAL_NOTE = (
    "Trusted: engine/symx.py + engine/vsched.py (scheduler, asyncio shim), the store model of the state seam "
    "(cartgraph.node.door), z3. Graphs come from a concrete menu of selections of the shipped suite parsed by the real "
    "Cartesian parser (symbolic strings cannot pass it); schedules, outcomes, pool contents, retry settings are solver variables. "
    "Bounded: see evidence.coverage.bounds; nothing is claimed outside them."
)

CHECKS = {
    "C16": dict(
        category="other",
        technique="symbolic execution of the real PrefixTree/EdgeRegister on uninterpreted atoms, z3 validity query per path",
        text=(
            "Bounded symbolic execution of the real PrefixTree.insert/get/__contains__, TestGraph.new_nodes/get_nodes_by_name and "
            "EdgeRegister with names made of uninterpreted atoms (symbolic equality, constant hash, so the real dicts fork on the "
            "equality pattern). At the end of every path the concrete lookup result is compared with the z3 formula 'the name contains "
            "the query contiguously' / 'sum of matching registrations' by a validity query (unsat of the negation). Holds for an "
            "unbounded alphabet within <= 3 names of <= 3 (thorough 4) variants, queries <= 2 (3), <= 4 (5) registrations; exhaustive "
            "within those bounds. Counterexamples are replayed with plain strings on the real classes."
        ),
        note="Assumes the property's own precondition on names (set variant first, no repeated variant, distinct names). Trusted: symx proxies, z3.",
        design="DESIGN.md §1 C16",
    ),
    "C17": dict(
        category="other",
        technique="solver-driven path exploration of the real show methods + live regexes translated to z3 regular languages (emptiness queries)",
        text=(
            "(a) The real QCOW2VTBackend.show and RamfileBackend._show are executed for every solver-chosen assignment of state presence to "
            "1..3 images and memory files and every listing order (exhaustive, 39k paths); the result must equal the every-image intersection. "
            "(b) The live compiled QEMU_ON_STATES_REGEX/QEMU_OFF_STATES_REGEX are translated from their re._parser trees into z3 regular "
            "expressions (negative look-ahead = intersection with a complement) and six language queries are discharged against the grammar "
            "of a qemu-img snapshot row: zero-size rows are matched by OFF and never by ON, nonzero rows by ON and never by OFF, and in every "
            "decomposition the pattern admits group 1 is exactly the TAG column (marker-language construction). unsat = holds for every row of "
            "the grammar, any length. Vacuity twins and a cross-check of grammar/translation against re on 72 realistic rows are included."
        ),
        note="Listing boundary (QemuImg.snapshot_list, os.listdir/stat, image backend) stubbed. Regex part: one-line model, ASCII classes, rows follow qemu-img's table grammar (>= 1 space between columns, size_to_str numbers). Trusted: smtgen translation (self-tested against re), z3 sequence/regex theory.",
        design="DESIGN.md §1 C17",
        engine="symx+smtgen",
    ),
    "C19": dict(
        category="other",
        technique="symbolic execution of the real VMTunnel constructor/connects_nodes over uninterpreted atoms, z3 validity queries against the counterpart table",
        text=(
            "The real VMTunnel.__init__ (with _get_peer_variant, real VMNode/VMNetconfig/Params) is executed for every combination of "
            "local x remote x peer x auth types (plus one unsupported word each) with addresses, networks, netmasks, PSK identities and nic "
            "names as uninterpreted atoms; the nodes' real interface dicts fork on nic-name equality so aliasing of nic roles is covered. "
            "Every generated left/right parameter is compared with the documented counterpart table by a validity query over the atoms "
            "(definedness included); unsupported types must raise ValueError. connects_nodes is run in both argument orders over three "
            "nodes with the netconfig membership predicates as solver variables. Exhaustive within these bounds (56k paths, 0.9M queries)."
        ),
        note="vm platform/interfaces are stubs carrying atoms; for connects_nodes the tunnel netconfigs are stubs with symbolic predicates, a misconfiguration IndexError is not compared. Trusted: symx, z3, the counterpart table written from the constructor's docstring.",
        design="DESIGN.md §1 C19",
    ),
}

NOT_APPLICABLE = {
    "C07": "Both sides of 'parsed edges = edges declared in the configuration' are functions of concrete configuration text through virttest's Cartesian parser (2200 lines of text processing outside /repo) which cannot be executed on symbolic strings within reach; deciding it would be differential testing over enumerated selections, a different technique. See DESIGN.md §2.",
}

PENDING_REASON = "check not built yet in this round (planned, see DESIGN.md §1); not claimed until its check exists"


def main() -> None:
    props = [json.loads(l) for l in open(os.path.join(HERE, "properties.jsonl"))]
    checks = []
    na = []
    for p in props:
        pid = p["id"]
        if pid in CHECKS:
            c = CHECKS[pid]
            checks.append(
                {
                    "property_id": pid,
                    "quick_cmd": f"./run.sh {pid} quick",
                    "thorough_cmd": f"./run.sh {pid} thorough",
                    "evidence_file": f"evidence/{pid}.json",
                    "replay_cmd_template": f"./run.sh {pid} --replay {{path}}",
                    "engine": c.get("engine", "symx"),
                    "level_claimed": {"category": c["category"], "text": c["text"], "design_ref": c["design"]},
                    "level_note": c["note"],
                    "technique": c["technique"],
                }
            )
        else:
            na.append({"property_id": pid, "reason": NOT_APPLICABLE.get(pid, PENDING_REASON)})
    manifest = {
        "version": 1,
        "setup_cmd": "./run.sh --setup",
        "hooks": {
            "guard": "AVOCADO_I2N_VERIF",
            "enable": "no hooks in /repo: every seam is a monkey-patch applied by the harness at run time (run.sh exports AVOCADO_I2N_VERIF=1 for uniformity, nothing in /repo reads it)",
            "baseline_off_cmd": "cd /repo && /venv/bin/python -m pytest -ra -q -p no:cacheprovider --timeout=900 --continue-on-collection-errors",
            "source_commits": [],
            "add_only": True,
        },
        "engines": [
            {"name": "symx", "path": "engine/symx.py", "serves_properties": sorted(CHECKS), "kind_free_text": "proxy-based symbolic executor for Python: z3 decides every branch on a symbolic value, DFS by re-execution, validity queries at path ends"},
            {"name": "vsched", "path": "engine/vsched.py", "serves_properties": [p for p in sorted(CHECKS) if p in ("C01", "C02", "C03", "C04", "C05", "C08", "C09", "C10", "C15", "C20", "C06")], "kind_free_text": "deterministic scheduler stepping the real traversal coroutines; scheduling choices, outcomes and durations are solver variables"},
            {"name": "smtgen", "path": "engine/smtgen.py", "serves_properties": [p for p in sorted(CHECKS) if p in ("C17",)], "kind_free_text": "sre parse tree of the live compiled patterns -> z3 regular expressions"},
        ],
        "checks": checks,
        "not_applicable": na,
        "notes": "Exit codes: 0 held on everything explored; 1 + VIOLATION line; 3 inconclusive / harness error. Replay files are written under replays/<id>/.",
    }
    with open(os.path.join(HERE, "MANIFEST.json"), "w") as f:
        json.dump(manifest, f, indent=1)
    print(f"claimed: {[c['property_id'] for c in checks]}")


if __name__ == "__main__":
    main()

#!/bin/bash
# Re-run every seeded demo on the current /repo HEAD (clean and with the patch) in a scratch worktree.
cd "$(dirname "$0")/.."
HEAD=$(git -C /repo rev-parse --short HEAD)
for d in seeded/*/; do
  name=$(basename $d)
  WT=/tmp/rs-$name
  git -C /repo worktree add -q --detach $WT HEAD || continue
  demo=$(ls $d/demo*.py | head -1)
  mkdir -p $WT/MUTANTS/x && cp $d/demo*.py $WT/MUTANTS/x/ && sed -i "s#/tmp/wt-[A-Za-z0-9]*#$WT#g; s#/tmp/cm2\?-[A-Za-z0-9-]*#$WT#g" $WT/MUTANTS/x/*.py
  ( cd $WT && PYTHONPATH="$WT:$WT/selftests/isolation" timeout 900 /venv/bin/python MUTANTS/x/$(basename $demo) > /dev/null 2>&1 ); c=$?
  if git -C $WT apply $(readlink -f $d/patch.diff) 2>/dev/null; then
    ( cd $WT && PYTHONPATH="$WT:$WT/selftests/isolation" timeout 900 /venv/bin/python MUTANTS/x/$(basename $demo) > /dev/null 2>&1 ); m=$?
    a=true
  else m=-1; a=false; fi
  echo "$name head=$HEAD applies=$a demo_clean=$c demo_patched=$m"
  git -C /repo worktree remove --force $WT
done

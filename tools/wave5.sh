#!/bin/bash
# usage: tools/wave5.sh <ID> <name>   e.g. tools/wave5.sh C12 C12-m5
# Takes /tmp/wt-<ID>/MUTANTS/m1 (delivered by a sub-agent), confirms it (confirm_mutant.sh, in the background:
# demo clean/patched + full suite with the patch) and runs the property's quick check against the patch at once.
ID="$1"; NAME="$2"
SRC=/tmp/wt-$ID/MUTANTS/m1
mkdir -p /tmp/w5 && rm -rf /tmp/w5/$NAME && cp -r "$SRC" /tmp/w5/$NAME
git -C /repo worktree remove --force /tmp/wt-$ID
(cd /verif && tools/confirm_mutant.sh /tmp/w5/$NAME $NAME $ID > /tmp/w5/$NAME.confirm 2>&1 &)
cd /verif && TAIL=30 tools/try_patch.sh /tmp/w5/$NAME/patch.diff $ID quick 2>&1 | tee /tmp/w5/$NAME.check | tail -12

#!/bin/bash
# usage: tools/sweep.sh <tier> [ids...]  -- run checks one after another, print a summary line per check
TIER="${1:-quick}"; shift
IDS="${@:-C01 C02 C03 C04 C05 C06 C08 C09 C10 C11 C12 C13 C14 C15 C16 C17 C18 C19 C20}"
cd "$(dirname "$0")/.."
for id in $IDS; do
  s=$(date +%s)
  out=$(./run.sh $id $TIER 2>&1); rc=$?
  e=$(date +%s)
  echo "== $id $TIER rc=$rc wall=$((e-s))s"
  echo "$out" | grep "^VIOLATION\|^KNOWN\|^INCONCLUSIVE\|^\[C" | cut -c1-220
done

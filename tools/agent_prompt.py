#!/usr/bin/env python3
"""Print the prompt given to a mutant-writing sub-agent for one property (property text only)."""
import json, sys
pid = sys.argv[1]
wt = f"/tmp/wt-{pid}"
for l in open("/verif/properties.jsonl"):
    p = json.loads(l)
    if p["id"] == pid:
        break
print(f"""You are helping to evaluate a verification effort for the open-source Python project intra2net/avocado-i2n
(an Avocado plugin that parses Cartesian test configs into a dependency graph of VM-state setup nodes and traverses it
with several asyncio workers, reusing saved states). You have your own scratch git worktree of the repository at
{wt} (detached HEAD of the pinned commit). Work ONLY inside {wt}. Never read, write or cd into /repo or /verif. Do not commit.

IMPORTANT environment facts:
- Run python as /venv/bin/python and ALWAYS with PYTHONPATH={wt} so that the worktree's avocado_i2n package is imported
  instead of the editable install of /repo. Check once with:
  cd {wt} && PYTHONPATH={wt} /venv/bin/python -c "import avocado_i2n; print(avocado_i2n.__file__)"   (must print a path under {wt})
- The existing test suite is run like this (from {wt}):
  cd {wt} && PYTHONPATH={wt} /venv/bin/python -m pytest -q -p no:cacheprovider --timeout=900 --continue-on-collection-errors selftests/isolation/<file>.py
  The whole suite (selftests/isolation, 269 tests) takes about 25 minutes on one core; test_cartesian_graph.py is most of it.
  There is no network. Do not install anything.
- One collection error for selftests.isolation.test_state_setup::MockDriver is pre-existing and expected.

THE PROPERTY (this is all you get; it is a behavioural property users rely on):

  Title: {p['title']}
  Statement: {p['statement']}
  It is meant to hold: {p['quantifier']['text']}

YOUR TASK: produce TWO different, independent, realistic source changes ("mutants") to the library code under {wt}/avocado_i2n/
(not to tests, not to tp_folder configs), each of which
  (a) BREAKS the property above (a user relying on the statement would be hurt),
  (b) still imports/compiles and PASSES THE ENTIRE EXISTING TEST SUITE unchanged (selftests/isolation) - you must actually run
      the relevant test files with the change applied, and the complete suite at least once per mutant before you finish,
  (c) is subtle: it should need something specific to manifest - a particular interleaving of workers, a failure/crash at a
      particular point, a multi-step sequence of operations, an unusual but legal input (e.g. a second image, a rare mode
      letter, a boundary value), or two cooperating code sites that each look fine alone. NOT something that ordinary use or
      the existing tests would expose at once. Think of plausible maintainer mistakes: an off-by-one, a dropped condition,
      a wrong operator, a stale variable, a reordered pair of statements, a too-early/too-late bookkeeping update, a wrong default.
  Each mutant should be small (a few lines). The two mutants should touch different mechanisms if possible.

For EACH mutant k in (1, 2) deliver, in the directory {wt}/MUTANTS/m<k>/ :
  - patch.diff : output of `git diff -- avocado_i2n` with ONLY that mutant applied (so it applies with `git apply` on a clean checkout).
  - demo.py (or demo_test.py): a small self-contained program/test that exercises the REAL library code (mocking only external
    boundaries the way the existing selftests do, e.g. the test runner seam or the state-control seam) and FAILS (non-zero exit /
    assertion) with the mutant applied and PASSES on the clean checkout. Run it both ways and record both outputs. It is run as
    `cd {wt} && PYTHONPATH={wt}:{wt}/selftests/isolation /venv/bin/python MUTANTS/m<k>/demo.py`.
  - notes.md : which mechanism was changed, why it breaks the property, exactly what is needed for it to manifest
    (interleaving / inputs / sequence), which tests you ran with the change applied and their pass counts.
Work on one mutant at a time: apply, test, write deliverables, then `git checkout -- avocado_i2n` before starting the next one.
Leave the worktree's avocado_i2n CLEAN (no mutant applied) at the end; keep only the MUTANTS/ directory.

Start by reading README.md and the code relevant to the property, and the existing tests around it to see what they pin down
(so that your change slips past them). Finish with a short report: for each mutant, one paragraph + the test results.""")

"""
smtgen - translate a compiled Python regular expression (its ``re._parser``
tree, taken from the live pattern object of /repo) into a z3 regular
expression over strings.

Supported: literals, classes with ranges / categories / negation, ``.``,
greedy and lazy repeats (same language), groups, alternation, ``^``/``$``
(under a one-line model: the subject is a single line without a newline, so
``^`` = start and ``$`` = end even with ``re.MULTILINE``), negative and
positive look-ahead (as intersection of the language of the remainder with
the (complement of the) look-ahead language followed by anything).
Alphabet: printable ASCII plus tab; ``\\w``/``\\d``/``\\s`` are the ASCII
classes (Python's Unicode classes are larger - outside the claim).
"""

from __future__ import annotations

import re
from typing import Any

import z3

try:  # python >= 3.11
    import re._parser as sre_parse  # type: ignore
    import re._constants as sre_c  # type: ignore
except ImportError:  # pragma: no cover
    import sre_parse  # type: ignore
    import sre_constants as sre_c  # type: ignore


def _ch(c: int) -> z3.ReRef:
    return z3.Re(z3.StringVal(chr(c)))


def _rng(a: str, b: str) -> z3.ReRef:
    return z3.Range(a, b)


def any_char() -> z3.ReRef:
    """Every character of the modelled alphabet except newline."""
    return z3.Union(_rng(" ", "~"), _ch(9))


def sigma_star() -> z3.ReRef:
    return z3.Star(any_char())


def _category(cat: Any) -> z3.ReRef:
    if cat == sre_c.CATEGORY_DIGIT:
        return _rng("0", "9")
    if cat == sre_c.CATEGORY_SPACE:
        # one-line model: newline-like whitespace is not part of the alphabet
        return z3.Union(_ch(32), _ch(9))
    if cat == sre_c.CATEGORY_WORD:
        return z3.Union(_rng("a", "z"), _rng("A", "Z"), _rng("0", "9"), _ch(ord("_")))
    if cat == sre_c.CATEGORY_NOT_DIGIT:
        return z3.Intersect(any_char(), z3.Complement(_category(sre_c.CATEGORY_DIGIT)))
    if cat == sre_c.CATEGORY_NOT_SPACE:
        return z3.Intersect(any_char(), z3.Complement(_category(sre_c.CATEGORY_SPACE)))
    if cat == sre_c.CATEGORY_NOT_WORD:
        return z3.Intersect(any_char(), z3.Complement(_category(sre_c.CATEGORY_WORD)))
    raise NotImplementedError(f"category {cat}")


def _class(items: list[Any]) -> z3.ReRef:
    negate = False
    parts = []
    for op, arg in items:
        if op == sre_c.NEGATE:
            negate = True
        elif op == sre_c.LITERAL:
            parts.append(_ch(arg))
        elif op == sre_c.RANGE:
            parts.append(_rng(chr(arg[0]), chr(arg[1])))
        elif op == sre_c.CATEGORY:
            parts.append(_category(arg))
        else:
            raise NotImplementedError(f"class item {op}")
    r = parts[0] if len(parts) == 1 else z3.Union(*parts)
    if negate:
        r = z3.Intersect(any_char(), z3.Complement(r))
    return r


def _empty() -> z3.ReRef:
    return z3.Re(z3.StringVal(""))


SIGMA = ("sigma*", None)  # internal item: any remainder (appended to look-ahead bodies so that nested anchors see it)


def _word_status(item: Any) -> str | None:
    """'word' / 'nonword' when every character the item can end with is (not) a word character, else None."""
    op, arg = item
    if op == sre_c.LITERAL:
        c = chr(arg)
        return "word" if (c.isascii() and (c.isalnum() or c == "_")) else "nonword"
    if op == sre_c.IN:
        kinds = set()
        for o, a in arg:
            if o == sre_c.NEGATE:
                return None
            if o == sre_c.LITERAL:
                kinds.add(_word_status((sre_c.LITERAL, a)))
            elif o == sre_c.RANGE:
                lo, hi = chr(a[0]), chr(a[1])
                kinds.add("word" if (lo.isalnum() and hi.isalnum() and lo.isascii() and hi.isascii()) else None)
            elif o == sre_c.CATEGORY:
                kinds.add({sre_c.CATEGORY_DIGIT: "word", sre_c.CATEGORY_WORD: "word", sre_c.CATEGORY_SPACE: "nonword"}.get(a))
            else:
                return None
        return kinds.pop() if len(kinds) == 1 else None
    if op in (sre_c.MAX_REPEAT, sre_c.MIN_REPEAT):
        lo, _hi, sub = arg
        sub = list(sub)
        if lo >= 1 and len(sub) == 1:
            return _word_status(sub[0])
    return None


def _word_char() -> z3.ReRef:
    return z3.Union(_rng("a", "z"), _rng("A", "Z"), _rng("0", "9"), _ch(ord("_")))


def seq_to_z3(items: list[Any], prev: Any = None) -> z3.ReRef:
    """Language of a sequence of sre items *followed by nothing* (full match)."""
    if not items:
        return _empty()
    op, arg = items[0]
    rest = items[1:]
    if op == sre_c.ASSERT_NOT:
        direction, sub = arg
        if direction != 1:
            raise NotImplementedError("look-behind")
        look = seq_to_z3(list(sub) + [SIGMA], prev)
        return z3.Intersect(seq_to_z3(rest, prev), z3.Complement(look))
    if op == sre_c.ASSERT:
        direction, sub = arg
        if direction != 1:
            raise NotImplementedError("look-behind")
        look = seq_to_z3(list(sub) + [SIGMA], prev)
        return z3.Intersect(seq_to_z3(rest, prev), look)
    if op == sre_c.AT and arg == sre_c.AT_BOUNDARY:
        # a word boundary after an item that always ends with a word character is "no word character follows"
        # (after a non-word character: "a word character follows"); other positions are not translated
        status = _word_status(prev) if prev is not None else None
        follows_word = z3.Concat(_word_char(), sigma_star())
        if status == "word":
            return z3.Intersect(seq_to_z3(rest, prev), z3.Complement(follows_word))
        if status == "nonword":
            return z3.Intersect(seq_to_z3(rest, prev), follows_word)
        raise NotImplementedError("word boundary after an item of mixed or unknown character kind")
    head = sigma_star() if (op, arg) == SIGMA else item_to_z3(op, arg)
    if not rest:
        return head
    return z3.Concat(head, seq_to_z3(rest, (op, arg)))


def _contains_lookahead(items: list[Any]) -> bool:
    for op, arg in items:
        if op in (sre_c.ASSERT, sre_c.ASSERT_NOT):
            return True
        if op == sre_c.SUBPATTERN and _contains_lookahead(list(arg[3])):
            return True
        if op in (sre_c.MAX_REPEAT, sre_c.MIN_REPEAT) and _contains_lookahead(list(arg[2])):
            return True
        if op == sre_c.BRANCH and any(_contains_lookahead(list(b)) for b in arg[1]):
            return True
    return False


def item_to_z3(op: Any, arg: Any) -> z3.ReRef:
    if op == sre_c.LITERAL:
        return _ch(arg)
    if op == sre_c.NOT_LITERAL:
        return z3.Intersect(any_char(), z3.Complement(_ch(arg)))
    if op == sre_c.ANY:
        return any_char()
    if op == sre_c.IN:
        return _class(arg)
    if op in (sre_c.MAX_REPEAT, sre_c.MIN_REPEAT):
        lo, hi, sub = arg
        sub = list(sub)
        if _contains_lookahead(sub):
            raise NotImplementedError("look-ahead inside a repeat")
        body = seq_to_z3(sub)
        if hi == sre_c.MAXREPEAT:
            if lo == 0:
                return z3.Star(body)
            if lo == 1:
                return z3.Plus(body)
            return z3.Concat(*([body] * lo), z3.Star(body))
        if lo == hi:
            if lo == 0:
                return _empty()
            return body if lo == 1 else z3.Concat(*([body] * lo))
        return z3.Loop(body, lo, hi)
    if op == sre_c.SUBPATTERN:
        sub = list(arg[3])
        if _contains_lookahead(sub):
            raise NotImplementedError("look-ahead inside a group is scoped to the group; not supported")
        return seq_to_z3(sub)
    if op == sre_c.BRANCH:
        alts = [seq_to_z3(list(b)) for b in arg[1]]
        return alts[0] if len(alts) == 1 else z3.Union(*alts)
    if op == sre_c.AT:
        if arg in (sre_c.AT_BEGINNING, sre_c.AT_BEGINNING_STRING, sre_c.AT_END, sre_c.AT_END_STRING):
            # handled by the callers' anchoring; inside a sequence it is the empty word
            return _empty()
        raise NotImplementedError(f"anchor {arg}")
    raise NotImplementedError(f"sre op {op}")


class Translated:
    """A pattern split into its top-level items, with the group boundaries."""

    def __init__(self, pattern: "re.Pattern[str]") -> None:
        self.pattern = pattern
        tree = sre_parse.parse(pattern.pattern, pattern.flags)
        self.items = list(tree)
        self.anchored_start = bool(self.items) and self.items[0] == (sre_c.AT, sre_c.AT_BEGINNING)
        if self.anchored_start:
            self.items = self.items[1:]
        self.anchored_end = bool(self.items) and self.items[-1] == (sre_c.AT, sre_c.AT_END)
        if self.anchored_end:
            self.items = self.items[:-1]

    def search_language(self) -> z3.ReRef:
        """Lines in which ``pattern.search`` (== findall non-empty) succeeds."""
        body = seq_to_z3(self.items + ([] if self.anchored_end else [(sre_c.MAX_REPEAT, (0, sre_c.MAXREPEAT, [(sre_c.ANY, None)]))]))
        # the trailing .* has to be inside seq_to_z3 so that look-aheads see it
        if self.anchored_start:
            return body
        return z3.Concat(sigma_star(), body)

    def components(self) -> list[tuple[int | None, z3.ReRef | None, Any]]:
        """
        Top-level items as (group number | None, language | None, raw item).

        Look-ahead items have language None and are returned raw so that a
        decomposition encoding can constrain the remainder.
        """
        out = []
        for op, arg in self.items:
            if op in (sre_c.ASSERT, sre_c.ASSERT_NOT):
                out.append((None, None, (op, arg)))
            elif op == sre_c.SUBPATTERN:
                out.append((arg[0], item_to_z3(op, arg), (op, arg)))
            else:
                out.append((None, item_to_z3(op, arg), (op, arg)))
        return out


def decomposition(tr: Translated, line: z3.SeqRef, tag: str) -> tuple[list[z3.BoolRef], dict[int, z3.SeqRef]]:
    """
    Constraints saying that ``line`` is matched by the (start-anchored) pattern
    with an explicit split into the top-level items; returns the constraints and
    the string variables of the capture groups.  Any match the backtracking
    matcher can report corresponds to one such split.
    """
    assert tr.anchored_start
    comps = tr.components()
    parts: list[z3.SeqRef] = []
    cons: list[z3.BoolRef] = []
    groups: dict[int, z3.SeqRef] = {}
    pending_look: list[tuple[Any, int]] = []
    for i, (gno, lang, raw) in enumerate(comps):
        if lang is None:
            pending_look.append((raw, len(parts)))
            continue
        v = z3.String(f"{tag}_p{i}")
        parts.append(v)
        cons.append(z3.InRe(v, lang))
        if gno is not None:
            groups[gno] = v
    rest = z3.String(f"{tag}_rest")
    cons.append(z3.InRe(rest, sigma_star()))
    if tr.anchored_end:
        cons.append(rest == z3.StringVal(""))
    allparts = parts + [rest]
    cons.append(line == z3.Concat(*allparts))
    for (op, arg), idx in pending_look:
        direction, sub = arg
        remainder = z3.Concat(*allparts[idx:]) if len(allparts[idx:]) > 1 else allparts[idx]
        look = seq_to_z3(list(sub) + [SIGMA])
        member = z3.InRe(remainder, look)
        cons.append(z3.Not(member) if op == sre_c.ASSERT_NOT else member)
    return cons, groups


# ---------------------------------------------------------------------------


def selftest() -> list[str]:
    """Compare the translation with ``re`` on z3-generated members and non-members."""
    failures: list[str] = []
    pats = [
        re.compile(r"^\d+\s+([\w\.-]+)\s*(0 B)\s+\d{4}-\d\d-\d\d", flags=re.MULTILINE),
        re.compile(r"^\d+\s+([\w\.-]+)\s*(?!0 B)(\d+e?[\-\+]?[\.\d]* \w+)\s+\d{4}-\d\d-\d\d", flags=re.MULTILINE),
        re.compile(r"ab?c{2,3}[^x-z]\S$"),
        re.compile(r"^(a|bc)+(?=d)\w"),
        re.compile(r"^x(?!0\b)[0-9.]+ \w+$"),
        re.compile(r"^a \bc?d$"),
    ]
    for pat in pats:
        tr = Translated(pat)
        lang = tr.search_language()
        for want in (True, False):
            s = z3.Solver()
            s.set("timeout", 20000)
            x = z3.String("x")
            s.add(z3.Length(x) <= 40)
            s.add(z3.InRe(x, sigma_star()))
            s.add(z3.InRe(x, lang) if want else z3.Not(z3.InRe(x, lang)))
            if not want:
                # make non-members interesting: they share the first item of the pattern
                s.add(z3.Length(x) >= 3)
            n = 0
            while n < 12:
                r = s.check()
                if str(r) != "sat":
                    if n == 0:
                        failures.append(f"smtgen: no {'member' if want else 'non-member'} for {pat.pattern!r}: {r}")
                    break
                val = s.model()[x].as_string()
                val = _unescape(val)
                got = pat.search(val) is not None
                if got != want:
                    failures.append(f"smtgen: {pat.pattern!r} on {val!r}: re says {got}, z3 says {want}")
                    break
                s.add(x != z3.StringVal(val))
                n += 1
    return failures


def _unescape(s: str) -> str:
    # z3 prints non-printable characters as \u{..}
    return re.sub(r"\\u\{([0-9a-fA-F]+)\}", lambda m: chr(int(m.group(1), 16)), s)

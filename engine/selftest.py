"""
Engine self-test (part of setup_cmd): symx against brute-force enumeration on
toy functions whose path count and verdict are known, the sre->z3 regex
translator against ``re``.
"""

from __future__ import annotations

import itertools
import sys
import time

import z3

from . import symx


def _toy_classify(eng: symx.Engine) -> tuple[str, int]:
    x = symx.sym_int("x", -3, 6)
    y = symx.sym_int("y", 0, 3)
    if x > y:
        if x - y > 2:
            r = "far"
        else:
            r = "near"
    elif x == y:
        r = "same"
    else:
        r = "below"
    # property: r == "same" -> x >= 0   (valid since y >= 0)
    if r == "same":
        eng.require(x.z >= 0, "same implies non-negative")
    return r, 0


def _toy_sum(eng: symx.Engine) -> int:
    # three symbolic bits, concretised sum must range over 0..3 with 8 paths
    bits = [symx.sym_bool(f"b{i}") for i in range(3)]
    return sum(1 for b in bits if b)


def _toy_enum(eng: symx.Engine) -> int:
    v = symx.sym_int("v", 2, 5)
    w = symx.sym_int("w", 0, 1)
    eng.assume(v.z + w.z <= 5)
    return int(v) * 10 + int(w)


def _toy_atoms(eng: symx.Engine) -> int:
    a, b, c = (symx.SymAtom(n) for n in "abc")
    d = {}
    d[a] = 1
    d[b] = 2
    d[c] = 3
    return len(d)


def _toy_bug(eng: symx.Engine) -> None:
    x = symx.sym_int("x", 0, 100)
    if x * 2 == 84:
        raise symx.Violation("found 42", {"x": eng.model_eval(x.z)})


def run() -> int:
    t0 = time.time()
    failures = []

    # 1. classification: 4 outcomes, validity query discharged on the "same" path
    outcomes = []
    eng = symx.Engine(seed=1)
    ok = eng.explore(_toy_classify, on_path=lambda e, o, p: outcomes.append((o, p)))
    got = sorted(p[0] for o, p in outcomes if o == "ok")
    if not ok or got != ["below", "far", "near", "same"] or eng.stats.violations:
        failures.append(f"classify: {got} exhausted={ok} stats={eng.stats.as_dict()}")

    # 2. three bits: 8 paths, sums as in brute force
    outcomes = []
    eng = symx.Engine(seed=2)
    ok = eng.explore(_toy_sum, on_path=lambda e, o, p: outcomes.append(p))
    brute = sorted(sum(bits) for bits in itertools.product([0, 1], repeat=3))
    if not ok or sorted(outcomes) != brute:
        failures.append(f"sum: {sorted(outcomes)} vs {brute}")

    # 3. enumeration of integer values under a joint constraint
    outcomes = []
    eng = symx.Engine(seed=3)
    ok = eng.explore(_toy_enum, on_path=lambda e, o, p: outcomes.append(p))
    brute = sorted(v * 10 + w for v in range(2, 6) for w in range(2) if v + w <= 5)
    if not ok or sorted(outcomes) != brute:
        failures.append(f"enum: {sorted(outcomes)} vs {brute}")

    # 4. atoms through a real dict: 5 set partitions of three names
    outcomes = []
    eng = symx.Engine(seed=4)
    ok = eng.explore(_toy_atoms, on_path=lambda e, o, p: outcomes.append(p))
    if not ok or sorted(outcomes) != [1, 2, 2, 2, 3]:
        failures.append(f"atoms: {sorted(outcomes)}")

    # 5. a planted violation is found and its model is right
    found = []
    eng = symx.Engine(seed=5)
    eng.explore(_toy_bug, on_path=lambda e, o, p: found.append(p) if o == "violation" else None)
    if len(found) != 1 or found[0].detail != {"x": 42}:
        failures.append(f"bug: {[f.detail for f in found]}")

    # 6. parallel exploration gives the same multiset as the serial one
    exhausted, stats, collected, err = symx.explore_parallel(_par_factory, seed=6, processes=4, split_depth=2, min_tasks=2)
    merged = sorted(x for c in collected for x in c)
    brute = sorted(sum(bits) for bits in itertools.product([0, 1], repeat=5))
    if not exhausted or err or merged != brute:
        failures.append(f"parallel: {merged} vs {brute} err={err}")

    # 7. regex translator
    from . import smtgen

    failures += smtgen.selftest()

    wall = time.time() - t0
    if failures:
        for f in failures:
            print("ENGINE SELFTEST FAILED:", f)
        return 3
    print(f"engine selftest ok ({wall:.1f}s)")
    return 0


def _par_factory():
    out = []

    def fn(eng: symx.Engine) -> int:
        bits = [symx.sym_bool(f"b{i}") for i in range(5)]
        return sum(1 for b in bits if b)

    def on_path(eng, outcome, payload):
        if outcome == "ok":
            out.append(payload)

    return fn, on_path, lambda: out


if __name__ == "__main__":
    sys.exit(run())

"""
symx - a small symbolic executor for real Python code, with z3 as the decider.

The code under test is executed on proxy values.  Every branch on a proxy
(``__bool__``) asks z3 which successors are feasible under the current path
condition; the decision tree is explored depth first by re-execution.  A path
ends either normally, with :class:`Abort` (infeasible / pruned / capped), or
with :class:`Violation`.  ``prove(formula)`` asks z3 for
``path_condition and not formula`` - ``unsat`` means the formula holds for every
value of the symbolic variables that reaches this point.

The decision stack only holds plain Python values (booleans, integers,
fractions); the constraints are rebuilt from the live call on every
re-execution, which makes prefixes transferable to other processes.  The
solver is kept incremental with one ``push`` per decision, so a re-execution
costs solver calls only below the point where it diverges from the previous
path.  Determinism of the code under test between re-executions is checked by
comparing a label per decision.
"""

from __future__ import annotations

import fractions
import os
import random
import time
from typing import Any, Callable

import z3


class Abort(BaseException):
    """End of a path that is neither a pass nor a violation (pruned, capped)."""


class Violation(BaseException):
    """A path on which the monitored property does not hold."""

    def __init__(self, what: str, detail: Any = None):
        super().__init__(what)
        self.what = what
        self.detail = detail


class Inconclusive(BaseException):
    """The solver answered unknown, or the harness lost determinism."""


_current: "Engine | None" = None


def engine() -> "Engine":
    assert _current is not None, "no active symx engine"
    return _current


class Stats:
    def __init__(self) -> None:
        self.paths = 0
        self.aborted = 0
        self.violations = 0
        self.decisions = 0
        self.forks = 0
        self.checks_sat = 0
        self.checks_unsat = 0
        self.checks_unknown = 0
        self.solver_s = 0.0
        self.max_depth = 0
        self.proved = 0
        self.prove_failed = 0

    def merge(self, other: "Stats") -> None:
        for k, v in other.__dict__.items():
            if k == "max_depth":
                self.max_depth = max(self.max_depth, v)
            else:
                setattr(self, k, getattr(self, k) + v)

    def as_dict(self) -> dict[str, Any]:
        d = dict(self.__dict__)
        d["solver_s"] = round(d["solver_s"], 3)
        d["solver_calls"] = self.checks_sat + self.checks_unsat + self.checks_unknown
        return d


class Engine:
    """Re-execution DFS over the decision tree of ``fn(engine)``."""

    def __init__(self, seed: int = 0, solver_timeout_ms: int = 20000) -> None:
        self.seed = seed
        self.rng = random.Random(seed)
        self.solver = z3.Solver()
        self.solver_timeout_ms = solver_timeout_ms
        self.solver.set("timeout", solver_timeout_ms)
        # entries: [label, kind, choice, pending]
        #   kind "bool": choice in {True, False}, pending = list of remaining
        #   kind "enum": choice = value, pending = list of values already tried
        #                (None once exhausted)
        #   kind "pick": choice = index, pending = remaining indices (no solver)
        self.stack: list[list[Any]] = []
        self.pos = 0
        self.fixed = 0  # entries [0, fixed) are a forced prefix (never flipped)
        self.synced = 0  # entries [0, synced) already have their constraint in the solver
        self.valid = -1  # assumptions made at pos <= valid are still in the solver
        self.stats = Stats()
        self.names: dict[str, int] = {}
        self.split_depth: int | None = None
        self.split_out: list[list[Any]] = []
        self.path_log: list[Any] = []
        self.last_model: Any = None

    # -- variable creation -------------------------------------------------
    def fresh(self, base: str) -> str:
        n = self.names.get(base, 0)
        self.names[base] = n + 1
        return f"{base}#{n}" if n else base

    # -- solver helpers ----------------------------------------------------
    def _check(self, *assumptions: z3.BoolRef) -> str:
        t0 = time.perf_counter()
        r = self.solver.check(*assumptions)
        s = str(r)
        if s == "unknown":
            # the timeout is wall-clock: on a loaded machine a small query can run out of it; ask once more with 5x the time
            self.solver.set("timeout", self.solver_timeout_ms * 5)
            try:
                s = str(self.solver.check(*assumptions))
            finally:
                self.solver.set("timeout", self.solver_timeout_ms)
        self.stats.solver_s += time.perf_counter() - t0
        if s == "sat":
            self.stats.checks_sat += 1
        elif s == "unsat":
            self.stats.checks_unsat += 1
        else:
            self.stats.checks_unknown += 1
        return s

    def assume(self, cond: Any, check: bool = True) -> None:
        """Add a constraint to the path condition (prunes the path if infeasible)."""
        cond = as_z3_bool(cond)
        if self.pos <= self.valid:
            return  # replaying above the divergence point: already in the solver
        self.solver.add(cond)
        if not check:
            return
        r = self._check()
        if r == "unsat":
            raise Abort("assumption infeasible")
        if r != "sat":
            raise Inconclusive("solver unknown on assume")

    def _replay_entry(self, label: str, kind: str) -> list[Any]:
        entry = self.stack[self.pos]
        if entry[0] != label or entry[1] != kind:
            raise Inconclusive(
                f"non-deterministic re-execution: expected decision {entry[0]!r}/{entry[1]} "
                f"at depth {self.pos}, got {label!r}/{kind}"
            )
        return entry

    def _advance(self, constraint: z3.BoolRef | None) -> None:
        """Consume stack[pos]; make sure its constraint is in the solver."""
        if self.pos >= self.synced:
            self.solver.push()
            if constraint is not None:
                self.solver.add(constraint)
            self.synced = self.pos + 1
        self.pos += 1
        self.stats.max_depth = max(self.stats.max_depth, self.pos)

    def _maybe_split(self) -> None:
        if self.split_depth is not None and self.pos >= self.split_depth:
            self.split_out.append([[e[0], e[1], e[2]] for e in self.stack[: self.pos]])
            raise Abort("split")

    def decide(self, cond: Any, label: str = "", prefer: bool | None = None) -> bool:
        """Branch on a symbolic condition (``prefer``: which feasible side to explore first)."""
        if isinstance(cond, bool):
            return cond
        cond = as_z3_bool(cond)
        if z3.is_true(cond):
            return True
        if z3.is_false(cond):
            return False
        if self.pos < len(self.stack):
            entry = self._replay_entry(label, "bool")
            choice = entry[2]
            self._advance(cond if choice else z3.Not(cond))
            return choice
        self._maybe_split()
        self.stats.decisions += 1
        r_true = self._check(cond)
        # when one side is infeasible the other one is the path condition itself,
        # which is feasible by construction (checked when it was last extended)
        r_false = self._check(z3.Not(cond)) if r_true != "unsat" else "sat"
        if "unknown" in (r_true, r_false):
            raise Inconclusive(f"solver unknown on decision {label!r}")
        options = [v for v, r in ((True, r_true), (False, r_false)) if r == "sat"]
        if not options:
            raise Abort("path condition infeasible")
        if len(options) == 2:
            self.stats.forks += 1
            if prefer is not None:
                options = [prefer, not prefer]
            elif self.rng.random() < 0.5:
                options.reverse()
        choice = options[0]
        self.stack.append([label, "bool", choice, options[1:]])
        self._advance(cond if choice else z3.Not(cond))
        return choice

    def pick(self, n: int, label: str = "") -> int:
        """Non-symbolic n-way choice (enumerated, no solver involved)."""
        if n <= 0:
            raise Abort("empty choice")
        if self.pos < len(self.stack):
            entry = self._replay_entry(label, "pick")
            self._advance(None)
            return entry[2]
        self._maybe_split()
        self.stats.decisions += 1
        options = list(range(n))
        self.rng.shuffle(options)
        if n > 1:
            self.stats.forks += 1
        self.stack.append([label, "pick", options[0], options[1:]])
        self._advance(None)
        return options[0]

    def concretize(self, expr: z3.ExprRef, label: str = "") -> Any:
        """Fork over all feasible values of an integer / bit-vector / real term."""
        expr = z3.simplify(expr)
        if z3.is_int_value(expr):
            return expr.as_long()
        if z3.is_bv_value(expr):
            return expr.as_long()
        if z3.is_rational_value(expr):
            return fractions.Fraction(expr.numerator_as_long(), expr.denominator_as_long())
        if self.pos < len(self.stack):
            entry = self._replay_entry(label, "enum")
            value = entry[2]
            self._advance(expr == _to_z3_value(expr, value))
            return value
        self._maybe_split()
        self.stats.decisions += 1
        r = self._check()
        if r == "unsat":
            raise Abort("path condition infeasible")
        if r != "sat":
            raise Inconclusive(f"solver unknown on concretize {label!r}")
        value = _from_model(self.solver.model().eval(expr, model_completion=True))
        self.stack.append([label, "enum", value, [value]])
        self._advance(expr == _to_z3_value(expr, value))
        return value

    def prove(self, formula: Any, label: str = "") -> bool:
        """Validity query: does ``formula`` hold for all values on this path?"""
        formula = as_z3_bool(formula)
        r = self._check(z3.Not(formula))
        if r == "unsat":
            self.stats.proved += 1
            return True
        if r == "sat":
            self.stats.prove_failed += 1
            self.last_model = self.solver.model()
            return False
        raise Inconclusive(f"solver unknown on validity query {label!r}")

    def require(self, formula: Any, what: str, detail: Any = None) -> None:
        """prove() or raise a Violation carrying the counter-model."""
        if isinstance(formula, bool):
            if not formula:
                raise Violation(what, detail)
            self.stats.proved += 1
            return
        if not self.prove(formula, what):
            raise Violation(what, {"detail": detail, "model": model_to_dict(self.last_model)})

    def current_model(self) -> Any:
        """A z3 model of the current path condition (None if not sat)."""
        if self._check() != "sat":
            return None
        return self.solver.model()

    def model(self) -> dict[str, Any]:
        r = self._check()
        if r != "sat":
            return {}
        return model_to_dict(self.solver.model())

    def model_eval(self, expr: z3.ExprRef) -> Any:
        r = self._check()
        if r != "sat":
            return None
        return _from_model(self.solver.model().eval(expr, model_completion=True))

    # -- exploration -------------------------------------------------------
    def _backtrack(self) -> bool:
        """Move the stack to the next unexplored path; False when exhausted."""
        while len(self.stack) > self.fixed:
            entry = self.stack[-1]
            depth = len(self.stack) - 1
            # drop the solver scopes of this decision and everything below
            while self.synced > depth:
                self.solver.pop()
                self.synced -= 1
            self.valid = self.synced
            label, kind, choice, pending = entry
            if kind in ("bool", "pick"):
                if pending:
                    entry[2] = pending.pop(0)
                    return True
            elif kind == "enum":
                # the alternative value needs the live expression: mark the
                # entry for lazy resolution at re-execution
                entry[2] = _NEXT
                return True
            self.stack.pop()
        return False

    def _resolve_next_enum(self, expr: z3.ExprRef, entry: list[Any]) -> bool:
        tried = entry[3]
        r = self._check(*[expr != _to_z3_value(expr, v) for v in tried])
        if r == "unknown":
            raise Inconclusive("solver unknown on enumeration")
        if r == "unsat":
            return False
        # need the model under the assumptions
        value = _from_model(self.solver.model().eval(expr, model_completion=True))
        tried.append(value)
        entry[2] = value
        return True

    def explore(
        self,
        fn: Callable[["Engine"], Any],
        on_path: Callable[["Engine", str, Any], None] | None = None,
        max_paths: int | None = None,
        deadline: float | None = None,
        prefix: list[list[Any]] | None = None,
        stop_on_violation: bool = False,
    ) -> bool:
        """
        Explore all paths of ``fn``.  Returns True when the tree was exhausted.

        ``on_path(engine, outcome, payload)`` is called at the end of every path with
        outcome in {"ok", "abort", "violation"}.
        """
        global _current
        if prefix:
            self.stack = [[p[0], p[1], p[2], [] if p[1] != "enum" else None] for p in prefix]
            self.fixed = len(self.stack)
        exhausted = False
        while True:
            self.pos = 0
            self.names = {}
            self.path_log = []
            _current = self
            outcome, payload = "ok", None
            try:
                payload = fn(self)
            except Abort as a:
                outcome, payload = "abort", str(a)
            except Violation as v:
                outcome, payload = "violation", v
            finally:
                _current = None
            if outcome == "abort" and payload == "enum-exhausted":
                # the flipped enum entry had no further value: drop it silently
                pass
            else:
                self.stats.paths += 1
                if outcome == "abort":
                    self.stats.aborted += 1
                elif outcome == "violation":
                    self.stats.violations += 1
                if on_path is not None:
                    on_path(self, outcome, payload)
            if outcome == "violation" and stop_on_violation:
                break
            # truncate anything recorded beyond the point reached
            del self.stack[max(self.pos, self.fixed):]
            if not self._backtrack():
                exhausted = True
                break
            if max_paths is not None and self.stats.paths >= max_paths:
                break
            if deadline is not None and time.time() > deadline:
                break
        while self.synced > 0:
            self.solver.pop()
            self.synced -= 1
        return exhausted

    def decisions_vector(self) -> list[list[Any]]:
        return [[e[0], e[1], _plain(e[2])] for e in self.stack[: self.pos]]


class _Next:
    def __repr__(self) -> str:
        return "<next>"


_NEXT = _Next()


def _plain(v: Any) -> Any:
    if isinstance(v, fractions.Fraction):
        return str(v)
    return v


# patch concretize replay to resolve _NEXT lazily
_orig_concretize = Engine.concretize


def _concretize(self: Engine, expr: z3.ExprRef, label: str = "") -> Any:
    if self.pos < len(self.stack) and self.stack[self.pos][2] is _NEXT:
        entry = self.stack[self.pos]
        if entry[0] != label or entry[1] != "enum":
            raise Inconclusive(
                f"non-deterministic re-execution at depth {self.pos}: {entry[0]!r} vs {label!r}"
            )
        expr = z3.simplify(expr)
        if not self._resolve_next_enum(expr, entry):
            # exhausted: remove the entry, continue backtracking above it
            del self.stack[self.pos:]
            self.pos = len(self.stack)
            raise Abort("enum-exhausted")
        self.stats.forks += 1
    return _orig_concretize(self, expr, label)


Engine.concretize = _concretize  # type: ignore[method-assign]


def _to_z3_value(expr: z3.ExprRef, value: Any) -> z3.ExprRef:
    sort = expr.sort()
    if z3.is_bv_sort(sort):
        return z3.BitVecVal(value, sort.size())
    if sort.kind() == z3.Z3_REAL_SORT:
        return z3.RealVal(str(value))
    return z3.IntVal(value)


def _from_model(v: z3.ExprRef) -> Any:
    if z3.is_int_value(v) or z3.is_bv_value(v):
        return v.as_long()
    if z3.is_rational_value(v):
        return fractions.Fraction(v.numerator_as_long(), v.denominator_as_long())
    if z3.is_true(v):
        return True
    if z3.is_false(v):
        return False
    if z3.is_string_value(v):
        return v.as_string()
    return str(v)


def model_to_dict(m: z3.ModelRef) -> dict[str, Any]:
    out = {}
    for d in m.decls():
        if d.arity() == 0:
            out[d.name()] = _plain(_from_model(m[d]))
    return out


# ---------------------------------------------------------------------------
# proxies
# ---------------------------------------------------------------------------


def as_z3_bool(x: Any) -> z3.BoolRef:
    if isinstance(x, SymBool):
        return x.z
    if isinstance(x, bool):
        return z3.BoolVal(x)
    if isinstance(x, z3.BoolRef):
        return x
    raise TypeError(f"not a boolean term: {x!r}")


def _num(x: Any) -> Any:
    if isinstance(x, (SymInt, SymReal, SymBV)):
        return x.z
    if isinstance(x, bool):
        return int(x)
    if isinstance(x, (int, z3.ExprRef)):
        return x
    if isinstance(x, float):
        return z3.RealVal(repr(x))
    if isinstance(x, fractions.Fraction):
        return z3.RealVal(str(x))
    return NotImplemented


class SymBool:
    """Symbolic boolean; ``bool()`` forks."""

    __slots__ = ("z", "label")

    def __init__(self, z: Any = None, name: str | None = None, label: str = "") -> None:
        if z is None:
            z = z3.Bool(engine().fresh(name or "b"))
        self.z = z
        self.label = label or (name or "")

    def __bool__(self) -> bool:
        return engine().decide(self.z, self.label)

    def __and__(self, o: Any) -> "SymBool":
        return SymBool(z3.And(self.z, as_z3_bool(o)))

    __rand__ = __and__

    def __or__(self, o: Any) -> "SymBool":
        return SymBool(z3.Or(self.z, as_z3_bool(o)))

    __ror__ = __or__

    def __invert__(self) -> "SymBool":
        return SymBool(z3.Not(self.z))

    def __xor__(self, o: Any) -> "SymBool":
        return SymBool(z3.Xor(self.z, as_z3_bool(o)))

    def __eq__(self, o: Any) -> Any:  # type: ignore[override]
        if isinstance(o, (SymBool, bool)):
            return SymBool(self.z == as_z3_bool(o))
        return False

    def __ne__(self, o: Any) -> Any:  # type: ignore[override]
        if isinstance(o, (SymBool, bool)):
            return SymBool(self.z != as_z3_bool(o))
        return True

    def __hash__(self) -> int:
        return hash(bool(self))

    def __repr__(self) -> str:
        return "<symbool>"

    __str__ = __repr__

    def __format__(self, spec: str) -> str:
        return "<symbool>"


class _SymNum:
    __slots__ = ("z", "label")
    _kind = "int"

    def _wrap(self, z: Any) -> Any:
        return type(self)(z)

    def _other(self, o: Any) -> Any:
        return _num(o)

    def _bin(self, o: Any, f: Callable[[Any, Any], Any], rev: bool = False) -> Any:
        oz = self._other(o)
        if oz is NotImplemented:
            return NotImplemented
        if isinstance(o, (SymReal, float, fractions.Fraction)) and not isinstance(self, SymReal):
            a = z3.ToReal(self.z)
            return SymReal(f(oz, a) if rev else f(a, oz))
        return self._wrap(f(oz, self.z) if rev else f(self.z, oz))

    def _cmp(self, o: Any, f: Callable[[Any, Any], Any]) -> Any:
        oz = self._other(o)
        if oz is NotImplemented:
            return NotImplemented
        return SymBool(f(self.z, oz))

    def __add__(self, o: Any) -> Any:
        return self._bin(o, lambda a, b: a + b)

    def __radd__(self, o: Any) -> Any:
        return self._bin(o, lambda a, b: a + b, True)

    def __sub__(self, o: Any) -> Any:
        return self._bin(o, lambda a, b: a - b)

    def __rsub__(self, o: Any) -> Any:
        return self._bin(o, lambda a, b: a - b, True)

    def __mul__(self, o: Any) -> Any:
        return self._bin(o, lambda a, b: a * b)

    def __rmul__(self, o: Any) -> Any:
        return self._bin(o, lambda a, b: a * b, True)

    def __neg__(self) -> Any:
        return self._wrap(-self.z)

    def __pos__(self) -> Any:
        return self

    def __lt__(self, o: Any) -> Any:
        return self._cmp(o, lambda a, b: a < b)

    def __le__(self, o: Any) -> Any:
        return self._cmp(o, lambda a, b: a <= b)

    def __gt__(self, o: Any) -> Any:
        return self._cmp(o, lambda a, b: a > b)

    def __ge__(self, o: Any) -> Any:
        return self._cmp(o, lambda a, b: a >= b)

    def __eq__(self, o: Any) -> Any:  # type: ignore[override]
        oz = self._other(o)
        if oz is NotImplemented:
            return False
        return SymBool(self.z == oz)

    def __ne__(self, o: Any) -> Any:  # type: ignore[override]
        oz = self._other(o)
        if oz is NotImplemented:
            return True
        return SymBool(self.z != oz)

    def __bool__(self) -> bool:
        return engine().decide(self.z != 0, self.label)

    def __hash__(self) -> int:
        return hash(engine().concretize(self.z, self.label))

    def __repr__(self) -> str:
        return f"<sym{self._kind}>"

    __str__ = __repr__

    def __format__(self, spec: str) -> str:
        return f"<sym{self._kind}>"


class SymInt(_SymNum):
    """Symbolic mathematical integer (Python ``int``)."""

    _kind = "int"

    def __init__(self, z: Any = None, name: str | None = None, label: str = "") -> None:
        if z is None:
            z = z3.Int(engine().fresh(name or "i"))
        elif isinstance(z, int):
            z = z3.IntVal(z)
        self.z = z
        self.label = label or (name or "")

    def __index__(self) -> int:
        return engine().concretize(self.z, self.label)

    __int__ = __index__

    def __floordiv__(self, o: Any) -> Any:
        # python floor division; z3 "/" on ints is euclidean for positive divisors
        oz = _num(o)
        if isinstance(o, int) and o > 0:
            return SymInt(self.z / oz)
        a, b = self.z, oz
        q = a / b
        # euclidean -> floor: adjust when divisor negative and remainder non-zero
        return SymInt(z3.If(z3.And(b < 0, a % b != 0), q + 1, q))

    def __mod__(self, o: Any) -> Any:
        oz = _num(o)
        if isinstance(o, int) and o > 0:
            return SymInt(self.z % oz)
        a, b = self.z, oz
        r = a % b
        return SymInt(z3.If(z3.And(b < 0, r != 0), r + b, r))

    def __truediv__(self, o: Any) -> Any:
        oz = _num(o)
        if isinstance(oz, int):
            oz = z3.RealVal(oz)
        elif z3.is_int(oz):
            oz = z3.ToReal(oz)
        return SymReal(z3.ToReal(self.z) / oz)

    def __abs__(self) -> Any:
        return SymInt(z3.If(self.z < 0, -self.z, self.z))

    def __float__(self) -> float:
        return float(engine().concretize(self.z, self.label))


class SymReal(_SymNum):
    """Symbolic real number (used for durations / instants of the virtual clock)."""

    _kind = "real"

    def __init__(self, z: Any = None, name: str | None = None, label: str = "") -> None:
        if z is None:
            z = z3.Real(engine().fresh(name or "r"))
        elif isinstance(z, (int, float, fractions.Fraction)):
            z = z3.RealVal(str(z) if not isinstance(z, float) else repr(z))
        self.z = z
        self.label = label or (name or "")

    def _other(self, o: Any) -> Any:
        oz = _num(o)
        if oz is NotImplemented:
            return oz
        if isinstance(oz, int):
            return z3.RealVal(oz)
        if isinstance(oz, z3.ExprRef) and z3.is_int(oz):
            return z3.ToReal(oz)
        return oz

    def __truediv__(self, o: Any) -> Any:
        return SymReal(self.z / self._other(o))

    def __rtruediv__(self, o: Any) -> Any:
        return SymReal(self._other(o) / self.z)

    def __float__(self) -> float:
        return float(engine().concretize(self.z, self.label))


class SymBV(_SymNum):
    """Symbolic fixed-width bit-vector with unsigned comparisons."""

    _kind = "bv"

    def __init__(self, z: Any = None, name: str | None = None, width: int = 32, label: str = "") -> None:
        if z is None:
            z = z3.BitVec(engine().fresh(name or "bv"), width)
        elif isinstance(z, int):
            z = z3.BitVecVal(z, width)
        self.z = z
        self.label = label or (name or "")

    @property
    def width(self) -> int:
        return self.z.size()

    def _other(self, o: Any) -> Any:
        if isinstance(o, SymBV):
            return o.z
        if isinstance(o, bool):
            o = int(o)
        if isinstance(o, int):
            return z3.BitVecVal(o, self.z.size())
        if isinstance(o, z3.BitVecRef):
            return o
        return NotImplemented

    def __lt__(self, o: Any) -> Any:
        return self._cmp(o, z3.ULT)

    def __le__(self, o: Any) -> Any:
        return self._cmp(o, z3.ULE)

    def __gt__(self, o: Any) -> Any:
        return self._cmp(o, z3.UGT)

    def __ge__(self, o: Any) -> Any:
        return self._cmp(o, z3.UGE)

    def __and__(self, o: Any) -> Any:
        return self._bin(o, lambda a, b: a & b)

    __rand__ = __and__

    def __or__(self, o: Any) -> Any:
        return self._bin(o, lambda a, b: a | b)

    __ror__ = __or__

    def __xor__(self, o: Any) -> Any:
        return self._bin(o, lambda a, b: a ^ b)

    def __invert__(self) -> Any:
        return SymBV(~self.z)

    def __lshift__(self, o: Any) -> Any:
        return self._bin(o, lambda a, b: a << b)

    def __rshift__(self, o: Any) -> Any:
        return self._bin(o, lambda a, b: z3.LShR(a, b))

    def __index__(self) -> int:
        return engine().concretize(self.z, self.label)

    __int__ = __index__


class SymAtom:
    """
    Uninterpreted name atom: equality is symbolic, the hash is constant.

    Goes through real ``dict``/``set`` objects: all atoms collide, so the
    container compares them with ``==``, which forks on the equality pattern.
    Atoms of different ``sort`` tags are never equal.
    """

    __slots__ = ("z", "tag", "label")

    def __init__(self, name: str, tag: str = "", z: Any = None) -> None:
        self.z = z if z is not None else z3.Int(engine().fresh(name))
        self.tag = tag
        self.label = name

    def __hash__(self) -> int:
        return 7

    def __eq__(self, o: Any) -> Any:  # type: ignore[override]
        if o is self:
            return True
        if isinstance(o, SymAtom):
            if o.tag != self.tag:
                return False
            return SymBool(self.z == o.z, label=f"{self.label}=={o.label}")
        return False

    def __ne__(self, o: Any) -> Any:  # type: ignore[override]
        r = self.__eq__(o)
        if isinstance(r, SymBool):
            return ~r
        return not r

    def __repr__(self) -> str:
        return f"<atom {self.label}>"

    __str__ = __repr__

    def __format__(self, spec: str) -> str:
        return f"<atom {self.label}>"


def sym_bool(name: str) -> SymBool:
    return SymBool(name=name)


def sym_int(name: str, lo: int | None = None, hi: int | None = None) -> SymInt:
    v = SymInt(name=name)
    e = engine()
    if lo is not None:
        e.assume(v.z >= lo)
    if hi is not None:
        e.assume(v.z <= hi)
    return v


def choose(n: int, label: str) -> int:
    """Solver-driven choice of an index in range(n)."""
    if n == 1:
        return 0
    e = engine()
    v = z3.Int(e.fresh(label))
    e.assume(z3.And(v >= 0, v < n))
    return e.concretize(v, label)


# ---------------------------------------------------------------------------
# parallel exploration
# ---------------------------------------------------------------------------


_FACTORY: Any = None


def _worker(args: tuple[Any, ...]) -> Any:
    prefix, seed, max_paths, deadline, solver_timeout_ms = args
    fn, on_path, collect = _FACTORY()
    eng = Engine(seed=seed, solver_timeout_ms=solver_timeout_ms)
    try:
        exhausted = eng.explore(fn, on_path=on_path, max_paths=max_paths, deadline=deadline, prefix=prefix)
        err = None
    except Inconclusive as inc:
        exhausted, err = False, str(inc)
    return exhausted, eng.stats, collect(), err


def explore_parallel(
    factory: Callable[[], tuple[Callable[[Engine], Any], Callable[..., None], Callable[[], Any]]],
    seed: int = 0,
    processes: int | None = None,
    split_depth: int = 6,
    max_paths_per_task: int | None = None,
    deadline: float | None = None,
    solver_timeout_ms: int = 20000,
    min_tasks: int = 48,
) -> tuple[bool, Stats, list[Any], str | None]:
    """
    Explore ``fn`` on several processes.

    ``factory()`` returns ``(fn, on_path, collect)``; it is called once in the
    coordinator (to enumerate prefixes of depth ``split_depth``) and once per
    task in a worker process (fork).  ``collect()`` returns the picklable result
    of a task.  Returns (exhausted, stats, [collected...], error).
    """
    import multiprocessing as mp

    global _FACTORY
    _FACTORY = factory
    processes = processes or min(16, os.cpu_count() or 1)
    stats = Stats()
    collected: list[Any] = []
    # coordinator: enumerate prefixes; paths shorter than split_depth complete here
    depth = split_depth
    while True:
        fn, on_path, collect = factory()
        eng = Engine(seed=seed, solver_timeout_ms=solver_timeout_ms)
        eng.split_depth = depth
        try:
            exhausted = eng.explore(fn, on_path=_skip_split(on_path))
        except Inconclusive as inc:
            return False, eng.stats, [collect()], str(inc)
        prefixes = eng.split_out
        if len(prefixes) >= min_tasks or depth >= 40 or not prefixes:
            break
        if deadline is not None and time.time() > deadline:
            break
        depth += 2
    # paths that were cut by the split are not paths
    eng.stats.paths -= len(prefixes)
    eng.stats.aborted -= len(prefixes)
    stats.merge(eng.stats)
    collected.append(collect())
    if not prefixes:
        return exhausted, stats, collected, None
    all_exhausted = exhausted
    error = None
    ctx = mp.get_context("fork")
    tasks = [
        (p, seed + 1 + i, max_paths_per_task, deadline, solver_timeout_ms)
        for i, p in enumerate(prefixes)
    ]
    with ctx.Pool(processes=processes, maxtasksperchild=8) as pool:
        for ex, st, col, err in pool.imap_unordered(_worker, tasks):
            all_exhausted = all_exhausted and ex
            stats.merge(st)
            collected.append(col)
            if err and not error:
                error = err
    return all_exhausted, stats, collected, error


def _skip_split(on_path: Callable[..., None] | None) -> Callable[..., None]:
    def wrapped(eng: Engine, outcome: str, payload: Any) -> None:
        if outcome == "abort" and payload == "split":
            return
        if on_path is not None:
            on_path(eng, outcome, payload)

    return wrapped

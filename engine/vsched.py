"""
vsched - a deterministic cooperative scheduler for the real traversal coroutines.

The module attribute ``asyncio`` of ``avocado_i2n.cartgraph.graph`` and
``avocado_i2n.plugins.runner`` is replaced by :class:`AsyncioShim`, whose
``sleep`` is an awaitable that yields a :class:`Suspend` record to whoever
steps the coroutine with ``.send(None)``.  The test-execution seam yields a
``Suspend("test", ...)`` of its own.  Two drivers:

* :func:`run_choice` - untimed: at every scheduling point the solver picks
  which suspended worker continues (a running test may end at any time, a
  backing-off worker may wake at any time, up to K consecutive polls without
  any other worker moving);
* :func:`run_timed` - durations of executions are symbolic reals; the next
  event is the earliest wake-up time and the scheduler forks on the order of
  the symbolic instants.
"""

from __future__ import annotations

import asyncio as _real_asyncio
import sys
from typing import Any, Callable

import z3

from . import symx


class Suspend:
    """What a coroutine hands to the scheduler when it suspends."""

    __slots__ = ("kind", "delay", "info")

    def __init__(self, kind: str, delay: Any = 0, info: Any = None) -> None:
        self.kind = kind  # "test" | "occupied" | "status-wait" | "other"
        self.delay = delay
        self.info = info

    def __await__(self):
        yield self

    def __repr__(self) -> str:
        return f"<suspend {self.kind} {self.delay}>"


class AsyncioShim:
    """Stands in for the ``asyncio`` module inside the modules under test."""

    def __init__(self) -> None:
        self.atomic_status_wait = True

    def sleep(self, delay: Any, result: Any = None) -> Any:
        caller = sys._getframe(1).f_code.co_name
        if caller == "traverse_object_trees":
            kind = "occupied"
        elif caller == "run_test_node":
            kind = "status-wait"
        else:
            kind = "other"
        return Suspend(kind, delay)

    def __getattr__(self, name: str) -> Any:
        return getattr(_real_asyncio, name)


SHIM = AsyncioShim()
STATUS_WAIT_HOOK: Any = None


class WorkerCrash(Exception):
    def __init__(self, wid: str, exc: BaseException) -> None:
        super().__init__(f"{wid}: {type(exc).__name__}: {exc}")
        self.wid = wid
        self.exc = exc


class Livelock(Exception):
    pass


class StepBound(Exception):
    pass


def run_choice(
    coros: dict[str, Any],
    K: int = 1,
    max_steps: int = 2000,
    on_step: Callable[[str, str], None] | None = None,
    state_key: Callable[[], Any] | None = None,
    visited: set[Any] | None = None,
) -> int:
    """
    Drive the coroutines to completion under solver-chosen scheduling.

    ``K``: a worker that backed off from an occupied node may poll again at most
    K times in a row while no other worker makes a step.
    ``state_key`` / ``visited``: optional pruning - when the global state at a
    scheduling point was already explored completely (it is in ``visited``) the
    path is cut (``symx.Abort``); the caller adds states after the subtree is done.
    Returns the number of scheduler steps.
    """
    state = {wid: "ready" for wid in coros}
    polls = {wid: 0 for wid in coros}
    live = list(coros)
    steps = 0
    path_states: list[Any] = []
    while live:
        eligible = [w for w in live if state[w] != "occupied" or polls[w] < K]
        if not eligible:
            running = [w for w in live if state[w] == "test"]
            # every live worker waits for an occupied node and none is executing: nobody can free them
            raise Livelock(f"all live workers {live} back off from occupied nodes and none is running (running={running})")
        if state_key is not None and visited is not None and len(eligible) > 1:
            key = state_key()
            if key in visited:
                raise symx.Abort("state already explored")
            path_states.append(key)
        idx = symx.choose(len(eligible), f"sched{steps}")
        wid = eligible[idx]
        steps += 1
        if steps > max_steps:
            raise StepBound(f"more than {max_steps} scheduler steps")
        try:
            y = coros[wid].send(None)
            while isinstance(y, Suspend) and y.kind == "status-wait":
                # the bounded wait for a late result is by default not a scheduling point (the node stays occupied);
                # with SHIM.atomic_status_wait off the other workers may move while the runner polls
                if STATUS_WAIT_HOOK is not None:
                    STATUS_WAIT_HOOK(wid)
                if not SHIM.atomic_status_wait:
                    break
                y = coros[wid].send(None)
        except StopIteration:
            live.remove(wid)
            state[wid] = "done"
            for w in live:
                polls[w] = 0
            if on_step:
                on_step(wid, "done")
            continue
        except (symx.Abort, symx.Violation, symx.Inconclusive):
            raise
        except Exception as e:
            raise WorkerCrash(wid, e) from e
        kind = y.kind if isinstance(y, Suspend) else "other"
        if kind == "occupied":
            polls[wid] += 1
        else:
            polls[wid] = 0
            # somebody else moved: the waiting workers may poll again
            for w in live:
                if w != wid:
                    polls[w] = 0
        state[wid] = kind
        if on_step:
            on_step(wid, kind)
    run_choice.last_path_states = path_states  # type: ignore[attr-defined]
    return steps


def run_timed(
    coros: dict[str, Any],
    max_steps: int = 4000,
    on_step: Callable[[str, str], None] | None = None,
    start_jitter: float = 0.01,
) -> int:
    """
    Drive the coroutines on a virtual clock whose instants are symbolic reals.

    A suspension ``Suspend(kind, delay)`` wakes at ``now + delay``; the delay of an
    execution is a symbolic real supplied by the harness (0 < d < test_timeout), back-off
    sleeps carry the concrete delay the code computed.  The next event is the earliest
    wake-up; which one that is, is decided by the solver (one path = one feasible order of
    events for all durations consistent with it).  Waiting workers are tried first and
    their "still earlier" side is explored first, so long executions come first.
    """
    eng = symx.engine()
    now: Any = z3.RealVal(0)
    wake: dict[str, Any] = {}
    kinds: dict[str, str] = {}
    for i, w in enumerate(coros):
        j = z3.Real(eng.fresh(f"start_{w}"))
        eng.assume(z3.And(j >= 0, j <= start_jitter), check=False)
        wake[w] = j
        kinds[w] = "ready"
    live = list(coros)
    steps = 0
    while live:
        order = sorted(live, key=lambda w: 1 if kinds[w] == "test" else 0)
        chosen = None
        for idx, c in enumerate(order):
            others = [o for o in order if o != c and o not in order[:idx]]
            if not others:
                chosen = c
                break
            cond = z3.And(*[wake[c] <= wake[o] for o in others])
            if eng.decide(cond, f"next_event_{steps}_{c}", prefer=True):
                chosen = c
                break
        assert chosen is not None
        wid = chosen
        now = wake[wid]
        steps += 1
        if steps > max_steps:
            raise StepBound(f"more than {max_steps} scheduler steps")
        try:
            y = coros[wid].send(None)
            while isinstance(y, Suspend) and y.kind == "status-wait":
                if STATUS_WAIT_HOOK is not None:
                    STATUS_WAIT_HOOK(wid)
                y = coros[wid].send(None)
        except StopIteration:
            live.remove(wid)
            kinds[wid] = "done"
            if on_step:
                on_step(wid, "done")
            continue
        except (symx.Abort, symx.Violation, symx.Inconclusive):
            raise
        except Exception as e:
            raise WorkerCrash(wid, e) from e
        kind = y.kind if isinstance(y, Suspend) else "other"
        delay = y.delay if isinstance(y, Suspend) else 0
        if isinstance(delay, (symx.SymReal, symx.SymInt)):
            dz = delay.z
        elif isinstance(delay, z3.ExprRef):
            dz = delay
        else:
            dz = z3.RealVal(repr(float(delay)))
        wake[wid] = now + dz
        kinds[wid] = kind
        if on_step:
            on_step(wid, kind)
    return steps
